(* Properties/C06.v - Url setters: atomic failure, frame condition, get-after-set, couplings.
   Model: Model/Setters.v (every mutator of url/src/lib.rs, path_segments.rs, quirks.rs as the code
   is; None = panic).  Vocabulary (Proofs/C06_*.v):
     wfh u                = wf_b u = true /\ host_text_ok u
       wf_b               the executable structural invariant of Model/WF.v
       host_text_ok u     if u has a host, its text is non-empty and does not start with ':' or '@'
                          (wf_b does not tie the host kind to the host text; every parsed URL has this)
     same_front dbg u u'  scheme, username, password, host_str, port read the same
     same_ids dbg u u'    scheme, username, password, host_str read the same
     same_back dbg u u'   path, query, fragment read the same
     tnl_text S x         what parse_fragment / parse_query (setter context) write for x with encode set S;
                          for a &str: encode S (utf8 (x without TAB/LF/CR))   (C06_text)
     query_text u x       tnl_text (QUERY or SPECIAL_QUERY by scheme of u) (x trimmed of TAB/LF/CR at both ends)
     userinfo_enc x       utf8_percent_encode(x, USERINFO)
     norm_port sch p      p, or None when p is the default port of scheme sch
     rstrip (= 0x20) p    p without its trailing spaces
     opaque_strip_applies u   u has an opaque path and no query
     path_empty_at_end u      the path is empty and is the end of the serialization      (class of F-C06-5)
     path_starts_with_2slash u   the path starts with "//"                                 (class of F-C02-2)
     new_path_ok P        P contains neither '?' nor '#', and is empty or starts with '/'
     marker_path u        no authority and path_start = scheme_end + 3 (the "/." marker in front of a "//"-led path)
     noauth_slash_path u  no authority, no marker, the path starts with '/'
     host_disp_ok hd h    the text hd h matches the kind of h: empty for the empty host, otherwise
                          non-empty and not starting with ':' / '@'
   All theorems are for both build configurations (dbg) and for arbitrary host functions. *)
From RU Require Import Base.Prelude Base.Utf8 Model.AsciiSet Gen.Tables Model.PercentEncoding
  Model.HostT Model.UrlRecord Model.Parser Model.Setters Model.WF
  Proofs.ListN Proofs.C03_WF Proofs.C06_List Proofs.C06_WFI Proofs.C06_Tail Proofs.C06_Steps Proofs.C06_Suffix
  Proofs.C06_Front Proofs.C06_Atomic Proofs.C06_FragQuery Proofs.C06_Port Proofs.C06_Cred Proofs.C06_Scheme
  Proofs.C06_HostNone Proofs.C06_Host Proofs.C06_PathParser Proofs.C06_Path Proofs.C06_Segments Proofs.C06_PathNoAuth Proofs.C06_Main
  Proofs.C06_PathMore.

(* 1. a mutator that reports failure returns the record unchanged (hence as_str() byte for byte).
   No premise at all: every record, every argument, all thirteen status-returning mutators. *)
Theorem C06_atomic : forall dbg hp hpo hd,
  fails_atomically (set_port dbg)
  /\ fails_atomically (set_host dbg hp hpo hd)
  /\ fails_atomically (set_ip_host dbg hd)
  /\ fails_atomically (set_password dbg)
  /\ fails_atomically (set_username dbg)
  /\ fails_atomically (set_scheme dbg)
  /\ fails_atomically (path_segments_session dbg)
  /\ fails_atomically (q_set_protocol dbg)
  /\ fails_atomically (q_set_username dbg)
  /\ fails_atomically (q_set_password dbg)
  /\ fails_atomically (q_set_host dbg hp hpo hd)
  /\ fails_atomically (q_set_hostname dbg hp hpo hd)
  /\ fails_atomically (q_set_port dbg).
Proof. exact atomic_all. Qed.
Check C06_atomic : forall dbg hp hpo hd,
  fails_atomically (set_port dbg)
  /\ fails_atomically (set_host dbg hp hpo hd)
  /\ fails_atomically (set_ip_host dbg hd)
  /\ fails_atomically (set_password dbg)
  /\ fails_atomically (set_username dbg)
  /\ fails_atomically (set_scheme dbg)
  /\ fails_atomically (path_segments_session dbg)
  /\ fails_atomically (q_set_protocol dbg)
  /\ fails_atomically (q_set_username dbg)
  /\ fails_atomically (q_set_password dbg)
  /\ fails_atomically (q_set_host dbg hp hpo hd)
  /\ fails_atomically (q_set_hostname dbg hp hpo hd)
  /\ fails_atomically (q_set_port dbg).
Print Assumptions C06_atomic.

(* 2. frame condition, per mutator (set_path and path_segments_mut: see C06_frame_path) *)
Theorem C06_frame : forall dbg hp hpo hd u, wfh u ->
  (forall f u', set_fragment dbg u f = Some u' ->
     unchanged_but_fragment dbg u u'
     /\ path_same_or_stripped (match f with None => opaque_strip_applies u | Some _ => false end) u u')
  /\ (forall q u', str_arg_ok q -> set_query dbg u q = Some u' ->
     unchanged_but_query dbg u u'
     /\ path_same_or_stripped (match q with None => is_opaque_b u && negb (has_some (fragment_start u)) | Some _ => false end) u u')
  /\ (forall p u', port_arg_ok p -> set_port dbg u p = Some (u', SOk) ->
     same_ids dbg u u' /\ same_back dbg u u')
  /\ (forall pw u', set_password dbg u pw = Some (u', SOk) ->
     scheme u' = scheme u /\ username dbg u' = username dbg u /\ host_str u' = host_str u /\ port u' = port u
     /\ same_back dbg u u')
  /\ (forall un u', set_username dbg u un = Some (u', SOk) ->
     scheme u' = scheme u /\ password dbg u' = password dbg u /\ host_str u' = host_str u /\ port u' = port u
     /\ same_back dbg u u')
  /\ (forall s u', set_scheme dbg u s = Some (u', SOk) ->
     username dbg u' = username dbg u /\ password dbg u' = password dbg u /\ host_str u' = host_str u
     /\ same_back dbg u u' /\ (port u' = port u \/ port u' = None))
  /\ (forall u', set_host dbg hp hpo hd u None = Some (u', SOk) ->
     (has_host u = false -> u' = u)
     /\ (has_host u = true -> path_empty_at_end u = false -> path_starts_with_2slash u = false ->
         scheme u' = scheme u /\ same_back dbg u u'))
  /\ (forall x u', (forall h, host_disp_ok hd h) ->
     (has_authority_b u = false -> path_start u = scheme_end u + 1) ->
     set_host dbg hp hpo hd u (Some x) = Some (u', SOk) ->
     exists h, (has_authority_b u = true -> hi_of_host h = HI_None -> port u = None) ->
       scheme u' = scheme u /\ username dbg u' = username dbg u /\ password dbg u' = password dbg u
       /\ port u' = port u /\ same_back dbg u u')
  /\ (forall h u', host_disp_ok hd h ->
     (has_authority_b u = false -> path_start u = scheme_end u + 1) ->
     (has_authority_b u = true -> hi_of_host h = HI_None -> port u = None) ->
     set_ip_host dbg hd u h = Some (u', SOk) ->
     scheme u' = scheme u /\ username dbg u' = username dbg u /\ password dbg u' = password dbg u
     /\ port u' = port u /\ same_back dbg u u').
Proof. exact frame_all. Qed.
Print Assumptions C06_frame.

(* 3. get-after-set *)
Theorem C06_get : forall dbg hd u, wfh u ->
  (forall f u', set_fragment dbg u f = Some u' ->
     fragment dbg u' = Some (match f with Some x => Some (tnl_text T_FRAGMENT x) | None => None end))
  /\ (forall q u', str_arg_ok q -> set_query dbg u q = Some u' ->
     query dbg u' = Some (match q with Some x => Some (query_text u x) | None => None end))
  /\ (forall p u', port_arg_ok p -> set_port dbg u p = Some (u', SOk) ->
     exists sch, scheme u = Some sch /\ port u' = norm_port sch p)
  /\ (forall pw u', set_password dbg u pw = Some (u', SOk) ->
     password dbg u' = Some (match pw with Some (c :: r) => Some (userinfo_enc (c :: r)) | _ => None end))
  /\ (forall un u', set_username dbg u un = Some (u', SOk) ->
     exists cur, username dbg u = Some cur
       /\ username dbg u' = Some (if list_eqb cur (utf8_encode un) then cur else userinfo_enc un))
  /\ (forall s u', set_scheme dbg u s = Some (u', SOk) ->
     exists new rem, parse_scheme CSetter s = Some (new, rem) /\ scheme u' = Some new)
  /\ (forall h u', host_disp_ok hd h ->
     (has_authority_b u = false -> path_start u = scheme_end u + 1) ->
     (has_authority_b u = true -> hi_of_host h = HI_None -> port u = None) ->
     set_ip_host dbg hd u h = Some (u', SOk) ->
     host_str u' = Some (if hi_some (hi_of_host h) then Some (hd h) else None)
     /\ hosti u' = hi_of_host h).
Proof. exact get_all. Qed.
Print Assumptions C06_get.

(* the text written for a &str argument, in closed form: the percent-encoding (C14's `encode`) of the
   UTF-8 bytes of the argument with TAB / LF / CR removed - what the parser produces for that text *)
Theorem C06_text : forall S x, usv_list x -> tnl_text S x = encode S (utf8_encode (filter not_tnl x)).
Proof. exact tnl_text_spec. Qed.
Check C06_text : forall S x, usv_list x -> tnl_text S x = encode S (utf8_encode (filter not_tnl x)).
Print Assumptions C06_text.

(* 4. the documented couplings *)
Theorem C06_couple : forall dbg hp hpo hd u, wfh u ->
  (forall u', set_host dbg hp hpo hd u None = Some (u', SOk) ->
     has_host u = true -> path_empty_at_end u = false -> path_starts_with_2slash u = false ->
     username dbg u' = Some [] /\ password dbg u' = Some None /\ host_str u' = Some None /\ port u' = None)
  /\ (forall p u' sch, p <= 65535 -> set_port dbg u (Some p) = Some (u', SOk) -> scheme u = Some sch ->
     default_port sch = Some p -> port u' = None)
  /\ (forall s u' new rem p, set_scheme dbg u s = Some (u', SOk) -> parse_scheme CSetter s = Some (new, rem) ->
     port u = Some p -> port u' = if opt_eqb (Some p) (default_port new) then None else Some p).
Proof. exact couple_all. Qed.
Check C06_couple : forall dbg hp hpo hd u, wfh u ->
  (forall u', set_host dbg hp hpo hd u None = Some (u', SOk) ->
     has_host u = true -> path_empty_at_end u = false -> path_starts_with_2slash u = false ->
     username dbg u' = Some [] /\ password dbg u' = Some None /\ host_str u' = Some None /\ port u' = None)
  /\ (forall p u' sch, p <= 65535 -> set_port dbg u (Some p) = Some (u', SOk) -> scheme u = Some sch ->
     default_port sch = Some p -> port u' = None)
  /\ (forall s u' new rem p, set_scheme dbg u s = Some (u', SOk) -> parse_scheme CSetter s = Some (new, rem) ->
     port u = Some p -> port u' = if opt_eqb (Some p) (default_port new) then None else Some p).
Print Assumptions C06_couple.

(* 5. the invariant is preserved (so the theorems above apply along histories of these calls) *)
Theorem C06_wf : forall dbg hp hpo hd u, wfh u ->
  (forall f u', set_fragment dbg u f = Some u' -> wfh u')
  /\ (forall q u', str_arg_ok q -> set_query dbg u q = Some u' -> wfh u')
  /\ (forall p u' st, port_arg_ok p -> set_port dbg u p = Some (u', st) -> wfh u')
  /\ (forall pw u' st, set_password dbg u pw = Some (u', st) -> wfh u')
  /\ (forall un u' st, set_username dbg u un = Some (u', st) -> wfh u')
  /\ (forall s u' st, set_scheme dbg u s = Some (u', st) -> wfh u')
  /\ (forall u' st, path_empty_at_end u = false -> path_starts_with_2slash u = false ->
        set_host dbg hp hpo hd u None = Some (u', st) -> wfh u')
  /\ (forall h u' st, host_disp_ok hd h ->
        (has_authority_b u = true -> hi_of_host h = HI_None -> port u = None) ->
        (has_authority_b u = false -> path_start u = scheme_end u + 1) ->
        set_ip_host dbg hd u h = Some (u', st) -> wfh u').
Proof. exact wf_all. Qed.
Print Assumptions C06_wf.

(* 6. no panic on a well-formed record *)
Theorem C06_nopanic : forall dbg u, wfh u ->
  (forall f, exists u', set_fragment dbg u f = Some u')
  /\ (forall q, str_arg_ok q -> exists u', set_query dbg u q = Some u')
  /\ (forall p, port_arg_ok p -> exists r, set_port dbg u p = Some r)
  /\ (forall pw, exists r, set_password dbg u pw = Some r)
  /\ (forall un, exists r, set_username dbg u un = Some r)
  /\ (forall s, exists r, set_scheme dbg u s = Some r).
Proof. exact nopanic_all. Qed.
Check C06_nopanic : forall dbg u, wfh u ->
  (forall f, exists u', set_fragment dbg u f = Some u')
  /\ (forall q, str_arg_ok q -> exists u', set_query dbg u q = Some u')
  /\ (forall p, port_arg_ok p -> exists r, set_port dbg u p = Some r)
  /\ (forall pw, exists r, set_password dbg u pw = Some r)
  /\ (forall un, exists r, set_username dbg u un = Some r)
  /\ (forall s, exists r, set_scheme dbg u s = Some r).
Print Assumptions C06_nopanic.

(* 7. the excluded classes are real defects of the pinned code (witnesses, evaluated by vm_compute) *)
Theorem C06_known_refuted :
  (* F-C06-5: set_host(None) on "a://h" rewrites the empty path to "/" *)
  (wf_b hn_w1 = true /\ path_empty_at_end hn_w1 = true
   /\ exists u', set_host true hn_hp hn_hp hn_hd hn_w1 None = Some (u', SOk)
      /\ path hn_w1 = Some [] /\ path u' = Some [47])
  (* F-C02-2: set_host(None) on "a://h//x" gives "a://x", not well-formed *)
  /\ (wf_b hn_w2 = true /\ path_starts_with_2slash hn_w2 = true
      /\ exists u', set_host true hn_hp hn_hp hn_hd hn_w2 None = Some (u', SOk)
         /\ ser u' = [97; 58; 47; 47; 120] /\ wf_b u' = false)
  (* F-C02-4: set_host(Some "") on "a://h:80/" gives "a://:80/", not well-formed *)
  /\ (wf_b hs_w1 = true
      /\ exists u', set_host true hs_hp hs_hp hs_hd hs_w1 (Some []) = Some (u', SOk)
         /\ ser u' = [97; 58; 47; 47; 58; 56; 48; 47] /\ wf_b u' = false)
  (* F-C03-5: set_host(Some "h") on "a:/.//p" keeps the marker: "a://h/.//p", not well-formed *)
  /\ (wf_b hs_w2 = true /\ has_authority_b hs_w2 = false /\ path_start hs_w2 <> scheme_end hs_w2 + 1
      /\ exists u', set_host true hs_hp hs_hp hs_hd hs_w2 (Some [104]) = Some (u', SOk)
         /\ ser u' = [97; 58; 47; 47; 104; 47; 46; 47; 47; 112] /\ wf_b u' = false).
Proof.
  split; [exact set_host_none_empty_path_refuted|]. split; [exact set_host_none_double_slash_refuted|].
  split; [exact set_host_empty_with_port_refuted | exact set_host_marker_refuted].
Qed.
Print Assumptions C06_known_refuted.

(* 8. set_path and path_segments_mut sessions (open, any sequence of clear / pop / pop_if_empty /
   push / extend, drop) on a URL WITH an authority: invariant, frame, and the new path is what the path
   state of the parser wrote - free of '?' and '#', empty or starting with '/'.
   auth_end_ok u: for a special non-file scheme the text in front of the path does not end in '/'
   (true of every parsed URL; wf_b does not say it).  Authority-less URLs are the classes F-C02-3
   (opaque path), F-C02-8 and F-C03-5: see C06_path_noauth_refuted and C06_frame_path_noauth. *)
Theorem C06_frame_path : forall dbg u, wfh u -> has_authority_b u = true ->
  (forall p u', usv_list p -> auth_end_ok u -> set_path dbg u p = Some u' ->
     wfh u' /\ same_front dbg u u' /\ query dbg u' = query dbg u /\ fragment dbg u' = fragment dbg u
     /\ exists P, path u' = Some P /\ new_path_ok P
        /\ exists hh rem, parse_path_start dbg CSetter (scheme_type_of (nfirstn (scheme_end u) (ser u))) true
                            (nfirstn (path_start u) (ser u)) p
                          = POk (nfirstn (path_start u) (ser u) ++ P, hh, rem))
  /\ (forall ops u', Forall psm_op_usv ops -> path_segments_session dbg u ops = Some (u', SOk) ->
     wfh u' /\ same_front dbg u u' /\ query dbg u' = query dbg u /\ fragment dbg u' = fragment dbg u
     /\ exists P, path u' = Some P /\ new_path_ok P).
Proof. exact path_all. Qed.
Check C06_frame_path : forall dbg u, wfh u -> has_authority_b u = true ->
  (forall p u', usv_list p -> auth_end_ok u -> set_path dbg u p = Some u' ->
     wfh u' /\ same_front dbg u u' /\ query dbg u' = query dbg u /\ fragment dbg u' = fragment dbg u
     /\ exists P, path u' = Some P /\ new_path_ok P
        /\ exists hh rem, parse_path_start dbg CSetter (scheme_type_of (nfirstn (scheme_end u) (ser u))) true
                            (nfirstn (path_start u) (ser u)) p
                          = POk (nfirstn (path_start u) (ser u) ++ P, hh, rem))
  /\ (forall ops u', Forall psm_op_usv ops -> path_segments_session dbg u ops = Some (u', SOk) ->
     wfh u' /\ same_front dbg u u' /\ query dbg u' = query dbg u /\ fragment dbg u' = fragment dbg u
     /\ exists P, path u' = Some P /\ new_path_ok P).
Print Assumptions C06_frame_path.

(* F-C02-8: set_path("//x") on "a:/p" gives "a://x", not well-formed;
   F-C02-3: set_path("?") on "a:b" gives "a:?" with the '?' inside the path, not well-formed *)
Theorem C06_path_noauth_refuted :
  (wf_b sp_w1 = true /\ has_authority_b sp_w1 = false
   /\ exists u', set_path true sp_w1 [47; 47; 120] = Some u' /\ ser u' = [97; 58; 47; 47; 120] /\ wf_b u' = false)
  /\ (wf_b sp_w2 = true /\ has_authority_b sp_w2 = false
      /\ exists u', set_path true sp_w2 [63] = Some u' /\ ser u' = [97; 58; 63] /\ query_start u' = None /\ wf_b u' = false).
Proof. split; [exact set_path_noauth_refuted | exact set_path_opaque_refuted]. Qed.
Print Assumptions C06_path_noauth_refuted.

(* 9. the same editors on an authority-less URL whose path starts with '/' and that has no "/." marker
   (noauth_slash_path u): as above, provided the RESULT does not start with "//" - when it does, the
   pinned code inserts no marker (F-C02-8, witness above). *)
Theorem C06_frame_path_noauth : forall dbg u, wf_b u = true -> noauth_slash_path u ->
  (forall p u', usv_list p -> set_path dbg u p = Some u' -> path_starts_with_2slash u' = false ->
     wfh u' /\ same_front dbg u u' /\ query dbg u' = query dbg u /\ fragment dbg u' = fragment dbg u
     /\ exists P, path u' = Some P /\ new_path_ok P)
  /\ (forall ops u', Forall psm_op_usv ops -> path_segments_session dbg u ops = Some (u', SOk) ->
     path_starts_with_2slash u' = false ->
     wfh u' /\ same_front dbg u u' /\ query dbg u' = query dbg u /\ fragment dbg u' = fragment dbg u
     /\ exists P, path u' = Some P /\ new_path_ok P).
Proof. exact path_noauth_all. Qed.
Check C06_frame_path_noauth : forall dbg u, wf_b u = true -> noauth_slash_path u ->
  (forall p u', usv_list p -> set_path dbg u p = Some u' -> path_starts_with_2slash u' = false ->
     wfh u' /\ same_front dbg u u' /\ query dbg u' = query dbg u /\ fragment dbg u' = fragment dbg u
     /\ exists P, path u' = Some P /\ new_path_ok P)
  /\ (forall ops u', Forall psm_op_usv ops -> path_segments_session dbg u ops = Some (u', SOk) ->
     path_starts_with_2slash u' = false ->
     wfh u' /\ same_front dbg u u' /\ query dbg u' = query dbg u /\ fragment dbg u' = fragment dbg u
     /\ exists P, path u' = Some P /\ new_path_ok P).
Print Assumptions C06_frame_path_noauth.

(* 10. set_path on an OPAQUE path, for every argument (a &str) without '?' and '#' (with them: the class
   F-C02-3, witness in C06_path_noauth_refuted): invariant and frame.  The statement was FALSE of the
   pinned code (finding F-C06-6: only a '/' in the very first position of the argument was escaped while
   TAB / LF / CR were dropped afterwards, so set_path("<TAB>//x") on "a:b" gave "a://x"); it is proved
   for the repaired code (0cfc9d8: the '/' test is made on the TAB / LF / CR-free input), which
   Model/Setters.v follows. *)
Definition C06_frame_path_opaque_statement : Prop :=
  forall dbg u p u', wfh u -> is_opaque_b u = true -> usv_list p ->
    forallb no_qh p = true -> set_path dbg u p = Some u' ->
    wfh u' /\ same_front dbg u u' /\ query dbg u' = query dbg u /\ fragment dbg u' = fragment dbg u.

Theorem C06_frame_path_opaque : C06_frame_path_opaque_statement.
Proof.
  intros dbg u p u' [W _] O Hu Q E.
  destruct (set_path_opaque_ok dbg u p u' W O Hu Q E) as (A & B & C & D & F & _).
  split; [split; assumption|]. split; [exact C|]. split; [exact D | exact F].
Qed.
Check C06_frame_path_opaque : forall dbg u p u', wfh u -> is_opaque_b u = true -> usv_list p ->
    forallb no_qh p = true -> set_path dbg u p = Some u' ->
    wfh u' /\ same_front dbg u u' /\ query dbg u' = query dbg u /\ fragment dbg u' = fragment dbg u.
Print Assumptions C06_frame_path_opaque.

(* in addition: the path stays opaque (the URL stays cannot-be-a-base) and the new path has no '?' / '#' *)
Theorem C06_get_path_opaque : forall dbg u p u', wfh u -> is_opaque_b u = true -> usv_list p ->
  forallb no_qh p = true -> set_path dbg u p = Some u' ->
  is_opaque_b u' = true /\ exists P, path u' = Some P /\ forallb no_qh P = true.
Proof.
  intros dbg u p u' [W _] O Hu Q E.
  destruct (set_path_opaque_ok dbg u p u' W O Hu Q E) as (_ & _ & _ & _ & _ & G & H). split; assumption.
Qed.
Check C06_get_path_opaque : forall dbg u p u', wfh u -> is_opaque_b u = true -> usv_list p ->
  forallb no_qh p = true -> set_path dbg u p = Some u' ->
  is_opaque_b u' = true /\ exists P, path u' = Some P /\ forallb no_qh P = true.
Print Assumptions C06_get_path_opaque.

(* the hypotheses are met non-trivially: "a:b" with set_path("x /y") gives "a:x /y"; with set_path("/y")
   the leading '/' is escaped: "a:%2Fy"; and so it is behind a TAB: set_path(TAB "//x") gives "a:%2F/x"
   (the former witness of F-C06-6) *)
Example C06_frame_path_opaque_inhabited :
  wfh sp_w2 /\ is_opaque_b sp_w2 = true
  /\ (exists u', set_path true sp_w2 [120; 32; 47; 121] = Some u' /\ ser u' = [97; 58; 120; 32; 47; 121]
        /\ wf_b u' = true)
  /\ (exists u', set_path true sp_w2 [47; 121] = Some u' /\ ser u' = [97; 58; 37; 50; 70; 121] /\ is_opaque_b u' = true)
  /\ (exists u', set_path true sp_w2 [9; 47; 47; 120] = Some u' /\ ser u' = [97; 58; 37; 50; 70; 47; 120]
        /\ wf_b u' = true /\ is_opaque_b u' = true).
Proof.
  split; [split; [vm_compute; reflexivity | intros Hh; vm_compute in Hh; discriminate]|].
  split; [vm_compute; reflexivity|].
  split; [|split]; eexists; (split; [vm_compute; reflexivity|]); repeat split; vm_compute; reflexivity.
Qed.

(* 11. set_path and path_segments_mut sessions on an authority-less URL that carries the "/." marker
   (marker_path u: no authority, path_start = scheme_end + 3; the class of F-C03-5): neither editor
   touches the marker, so the result satisfies the invariant and the frame iff the new path still starts
   with "//" - otherwise "/." stays in front of a path that needs none. *)
Theorem C06_frame_path_marker : forall dbg u, wf_b u = true -> marker_path u ->
  (forall p u', usv_list p -> set_path dbg u p = Some u' ->
     (path_starts_with_2slash u' = true ->
        wfh u' /\ same_front dbg u u' /\ query dbg u' = query dbg u /\ fragment dbg u' = fragment dbg u
        /\ exists P, path u' = Some P /\ new_path_ok P)
     /\ (path_starts_with_2slash u' = false -> wf_b u' = false))
  /\ (forall ops u', Forall psm_op_usv ops -> path_segments_session dbg u ops = Some (u', SOk) ->
     (path_starts_with_2slash u' = true ->
        wfh u' /\ same_front dbg u u' /\ query dbg u' = query dbg u /\ fragment dbg u' = fragment dbg u
        /\ exists P, path u' = Some P /\ new_path_ok P)
     /\ (path_starts_with_2slash u' = false -> wf_b u' = false)).
Proof.
  intros dbg u W M. split.
  - intros p u' Hp E. destruct (set_path_marker_ok dbg u p u' W M Hp E) as [R1 R2]. split; [|exact R2].
    intros H. destruct (R1 H) as (A & B & C & D & F & G). split; [split; assumption|]. split; [exact C|]. split; [exact D|]. split; [exact F | exact G].
  - intros ops u' Ho E. destruct (path_segments_session_marker_ok dbg u ops u' W M Ho E) as [R1 R2]. split; [|exact R2].
    intros H. destruct (R1 H) as (A & B & C & D & F & G). split; [split; assumption|]. split; [exact C|]. split; [exact D|]. split; [exact F | exact G].
Qed.
Check C06_frame_path_marker : forall dbg u, wf_b u = true -> marker_path u ->
  (forall p u', usv_list p -> set_path dbg u p = Some u' ->
     (path_starts_with_2slash u' = true ->
        wfh u' /\ same_front dbg u u' /\ query dbg u' = query dbg u /\ fragment dbg u' = fragment dbg u
        /\ exists P, path u' = Some P /\ new_path_ok P)
     /\ (path_starts_with_2slash u' = false -> wf_b u' = false))
  /\ (forall ops u', Forall psm_op_usv ops -> path_segments_session dbg u ops = Some (u', SOk) ->
     (path_starts_with_2slash u' = true ->
        wfh u' /\ same_front dbg u u' /\ query dbg u' = query dbg u /\ fragment dbg u' = fragment dbg u
        /\ exists P, path u' = Some P /\ new_path_ok P)
     /\ (path_starts_with_2slash u' = false -> wf_b u' = false)).
Print Assumptions C06_frame_path_marker.

(* both halves are inhabited: "a:/.//p" - set_path("/q") gives "a:/./q", path_segments_mut().clear() gives
   "a:/./" (not well-formed), set_path("//q") gives "a:/.//q" (well-formed) *)
Theorem C06_path_marker_refuted :
  wf_b mk_w = true /\ marker_path mk_w
  /\ (exists u', set_path true mk_w [47; 113] = Some u' /\ ser u' = [97; 58; 47; 46; 47; 113] /\ wf_b u' = false)
  /\ (exists u', path_segments_session true mk_w [PClear] = Some (u', SOk) /\ ser u' = [97; 58; 47; 46; 47] /\ wf_b u' = false)
  /\ (exists u', set_path true mk_w [47; 47; 113] = Some u' /\ ser u' = [97; 58; 47; 46; 47; 47; 113] /\ wf_b u' = true).
Proof. exact marker_refuted. Qed.
Print Assumptions C06_path_marker_refuted.

(* 12. the exclusion of C06_frame_path_noauth is exact as well: on an authority-less URL with a '/'-led
   path and no marker, a result that starts with "//" is never well-formed (F-C02-8) *)
Theorem C06_frame_path_noauth_exact : forall dbg u, wf_b u = true -> noauth_slash_path u ->
  (forall p u', usv_list p -> set_path dbg u p = Some u' -> path_starts_with_2slash u' = true -> wf_b u' = false)
  /\ (forall ops u', Forall psm_op_usv ops -> path_segments_session dbg u ops = Some (u', SOk) ->
     path_starts_with_2slash u' = true -> wf_b u' = false).
Proof.
  intros dbg u W NA. split.
  - intros p u' Hp E. exact (set_path_noauth_exact dbg u p u' W NA Hp E).
  - intros ops u' Ho E. exact (path_segments_session_noauth_exact dbg u ops u' W NA Ho E).
Qed.
Check C06_frame_path_noauth_exact : forall dbg u, wf_b u = true -> noauth_slash_path u ->
  (forall p u', usv_list p -> set_path dbg u p = Some u' -> path_starts_with_2slash u' = true -> wf_b u' = false)
  /\ (forall ops u', Forall psm_op_usv ops -> path_segments_session dbg u ops = Some (u', SOk) ->
     path_starts_with_2slash u' = true -> wf_b u' = false).
Print Assumptions C06_frame_path_noauth_exact.

(* the four layouts of a well-formed record are exhaustive: authority (8), no authority with a '/'-led
   path and no marker (9, 12), opaque path (10), marker (11) *)
Theorem C06_path_layouts : forall u, wf_b u = true ->
  has_authority_b u = true \/ noauth_slash_path u \/ is_opaque_b u = true \/ marker_path u.
Proof. exact path_layouts. Qed.
Check C06_path_layouts : forall u, wf_b u = true ->
  has_authority_b u = true \/ noauth_slash_path u \/ is_opaque_b u = true \/ marker_path u.
Print Assumptions C06_path_layouts.

(* non-vacuity: the invariant is inhabited (http://u:p@h:81/a?q#f and an opaque-path URL) *)
Example C06_wfh_inhabited :
  wfh (mkUrl [104;116;116;112;58;47;47;117;58;112;64;104;58;56;49;47;97;63;113;35;102]
             4 8 11 12 HI_Domain (Some 81) 15 (Some 17) (Some 19))
  /\ wfh (mkUrl [97;58;120;32] 1 2 2 2 HI_None None 2 None None).
Proof.
  split; (split; [vm_compute; reflexivity|]); intros H; vm_compute in H |- *; try discriminate.
  split; [reflexivity|]. split; reflexivity.
Qed.
