(* Properties/C16.v - Origins.  Only statements, closed by `exact`.
   Vocabulary (Model/Origin.v, Proofs/C16_Conc.v, Proofs/C16_Origin.v):
     counter_op            FetchAdd | LoadThenStore - what Origin::new_opaque does to COUNTER; the value
                           used by the model is decode_counter_op T_COUNTER_OP, T_COUNTER_OP regenerated
                           from url/src/origin.rs on every run
     config                the shared counter + the threads that have loaded it and not yet stored
     run op s cfg          the schedule s (a list of thread ids; each occurrence = that thread's next
                           ATOMIC step) executed from cfg: final configuration and the identities
                           handed out, in order, each with the thread that received it
     ids_of r              the identities of such a result
     nseq c n              c, c+1, ..., c+n-1
     USIZE_MOD             2^64 (the counter is a usize and wraps; the claim is for fewer creations)
     url_origin dbg hp ho hd c u   url_origin(&u) started with COUNTER = c: OOk origin counter' | OPanic
                           | OFuel (model fuel of the blob recursion exhausted); hp/ho/hd = Host::parse,
                           Host::parse_opaque, Display for Host (arbitrary functions in every theorem)
     five_schemes          [ftp; http; https; ws; wss]
     count58               number of ':' bytes
     plainc c              32 < c < 128 and c is none of : / \ ? # @ [ ]   (Proofs/C16_RT.v)
     plain_text t          t <> [] and every byte of t satisfies plainc (the texts of domains and IPv4 hosts)
     v6c c                 32 < c < 128 and c is none of / \ ? # @ [ ]   (':' allowed; Proofs/C16_RT6.v)
     bracket_text t        t = "[" body "]" with every byte of body satisfying v6c (the texts of IPv6 hosts)
     url_parse dbg hp ho hd p   Url::parse(p): the parser model (Model/Parser.v) without base and without
                           encoding override, on the chars() of the byte string p
     Host.host_parse idna, Host.host_display   the host MODEL (Model/Host.v, property C09), idna arbitrary
     C09_Host.IdnaOK idna  the hypothesis of C09 on the IDNA function: outputs are ASCII outside the deny list
                           host.rs passes, are fixed points, and dotted-decimal text is mapped to itself
   Strings are lists of UTF-8 bytes. *)
From RU Require Import Base.Prelude Base.Utf8 Gen.Tables Model.HostT Model.UrlRecord Model.Parser Model.Origin
  Proofs.C16_Conc Proofs.C16_Origin Proofs.C16_RT Proofs.C16_Example Proofs.C16_Colons Proofs.C16_RT6
  Proofs.C16_RT6Model Proofs.C16_RTParsed.
From RU Require Model.Host Proofs.C09_Host.

(* the code as it is today increments COUNTER with one atomic fetch_add (re-proved against the
   regenerated table on every run; a load/store pair makes this fail) *)
Theorem C16_model_uses_fetch_add : decode_counter_op T_COUNTER_OP = FetchAdd.
Proof. exact counter_table_ok. Qed.
Check C16_model_uses_fetch_add : decode_counter_op T_COUNTER_OP = FetchAdd.
Print Assumptions C16_model_uses_fetch_add.

(* the regenerated scheme dispatch of url_origin: tuple arm = the five schemes, recursing arm = blob *)
Theorem C16_dispatch_tables : forall s,
  str_mem s T_ORIGIN_TUPLE_SCHEMES = str_mem s [s_ftp; s_http; s_https; s_ws; s_wss]
  /\ str_mem s T_ORIGIN_BLOB_SCHEMES = list_eqb s s_blob.
Proof. intros s. split; [exact (tuple_table s)|exact (blob_table s)]. Qed.
Check C16_dispatch_tables : forall s,
  str_mem s T_ORIGIN_TUPLE_SCHEMES = str_mem s [s_ftp; s_http; s_https; s_ws; s_wss]
  /\ str_mem s T_ORIGIN_BLOB_SCHEMES = list_eqb s s_blob.
Print Assumptions C16_dispatch_tables.

(* opaque identities under concurrency: for EVERY schedule - any thread ids, any interleaving, any
   length - of atomic fetch_add steps from any configuration, as long as the counter does not wrap:
   the k-th step hands counter+k to the thread scheduled k-th; the identities are pairwise distinct,
   none is below the starting value, and none handed out in a later segment of the schedule repeats
   one handed out earlier *)
Theorem C16_opaque :
  forall (s : schedule) (cfg : config),
    counter cfg + N.of_nat (length s) < USIZE_MOD ->
    let r := run FetchAdd s cfg in
    snd r = combine s (nseq (counter cfg) (length s))
    /\ NoDup (ids_of r)
    /\ Forall (fun i => counter cfg <= i) (ids_of r)
    /\ counter (fst r) = counter cfg + N.of_nat (length s)
    /\ (forall s1 s2, s = s1 ++ s2 ->
        forall a b, In a (ids_of (run FetchAdd s1 cfg)) ->
                    In b (ids_of (run FetchAdd s2 (fst (run FetchAdd s1 cfg)))) -> a < b).
Proof. exact opaque_unique. Qed.
Check C16_opaque :
  forall (s : schedule) (cfg : config),
    counter cfg + N.of_nat (length s) < USIZE_MOD ->
    let r := run FetchAdd s cfg in
    snd r = combine s (nseq (counter cfg) (length s))
    /\ NoDup (ids_of r)
    /\ Forall (fun i => counter cfg <= i) (ids_of r)
    /\ counter (fst r) = counter cfg + N.of_nat (length s)
    /\ (forall s1 s2, s = s1 ++ s2 ->
        forall a b, In a (ids_of (run FetchAdd s1 cfg)) ->
                    In b (ids_of (run FetchAdd s2 (fst (run FetchAdd s1 cfg)))) -> a < b).
Print Assumptions C16_opaque.

(* with a load followed by a store there is a two-thread schedule in which both threads receive the
   same identity (kept so that the check reacts when fetch_add is replaced); and the no-wrap premise
   of C16_opaque cannot be dropped: from 2^64-1 the second creation receives 0 again *)
Theorem C16_race_refuted :
  (exists s : schedule,
     Forall (fun t => t = 0 \/ t = 1) s
     /\ (exists i, snd (run LoadThenStore s (mkConfig 0 [])) = [(0, i); (1, i)])
     /\ ~ NoDup (ids_of (run LoadThenStore s (mkConfig 0 []))))
  /\ ids_of (run FetchAdd [0; 0] (mkConfig (USIZE_MOD - 1) [])) = [USIZE_MOD - 1; 0].
Proof. split; [exact race|exact wrap_witness]. Qed.
Check C16_race_refuted :
  (exists s : schedule,
     Forall (fun t => t = 0 \/ t = 1) s
     /\ (exists i, snd (run LoadThenStore s (mkConfig 0 [])) = [(0, i); (1, i)])
     /\ ~ NoDup (ids_of (run LoadThenStore s (mkConfig 0 []))))
  /\ ids_of (run FetchAdd [0; 0] (mkConfig (USIZE_MOD - 1) [])) = [USIZE_MOD - 1; 0].
Print Assumptions C16_race_refuted.

(* tuple origins: for URLs u, v (any records, any counters, any fuel) that are not themselves blob URLs
   and whose origins are tuples, the origins are equal exactly when scheme, host and effective port
   (port_or_known_default) are equal; derived == is this equality.  (For a blob URL C16_blob gives the
   origin of the embedded URL.) *)
Theorem C16_tuple : forall dbg hp ho hd f1 f2 c1 c2 u v o1 o2 c1' c2',
  scheme u <> Some s_blob -> scheme v <> Some s_blob ->
  url_origin_fuel dbg hp ho hd f1 c1 u = OOk o1 c1' ->
  url_origin_fuel dbg hp ho hd f2 c2 v = OOk o2 c2' ->
  is_tuple o1 = true -> is_tuple o2 = true ->
  (o1 = o2 <-> (scheme u = scheme v /\ host_of u = host_of v
                /\ port_or_known_default u = port_or_known_default v))
  /\ (origin_eqb o1 o2 = true <-> o1 = o2).
Proof. exact tuple_equality. Qed.
Check C16_tuple : forall dbg hp ho hd f1 f2 c1 c2 u v o1 o2 c1' c2',
  scheme u <> Some s_blob -> scheme v <> Some s_blob ->
  url_origin_fuel dbg hp ho hd f1 c1 u = OOk o1 c1' ->
  url_origin_fuel dbg hp ho hd f2 c2 v = OOk o2 c2' ->
  is_tuple o1 = true -> is_tuple o2 = true ->
  (o1 = o2 <-> (scheme u = scheme v /\ host_of u = host_of v
                /\ port_or_known_default u = port_or_known_default v))
  /\ (origin_eqb o1 o2 = true <-> o1 = o2).
Print Assumptions C16_tuple.

(* which URLs get a tuple: a non-blob URL's origin is a tuple exactly for ftp/http/https/ws/wss; for
   these schemes, if the URL has a host (the explicit premise host_of u = Some (Some h); parse results
   with a special non-file scheme always have one) neither unwrap() in url_origin can fail - the
   effective port exists - and the origin is (scheme, host, effective port), the counter untouched;
   without a host url.host().unwrap() panics *)
Theorem C16_tuple_schemes : forall dbg hp ho hd f c u s,
  scheme u = Some s ->
  (s <> s_blob -> forall o c', url_origin_fuel dbg hp ho hd f c u = OOk o c' ->
     (is_tuple o = true <-> In s [s_ftp; s_http; s_https; s_ws; s_wss]))
  /\ (In s [s_ftp; s_http; s_https; s_ws; s_wss] ->
      (forall h, host_of u = Some (Some h) ->
         exists p, port_or_known_default u = Some (Some p)
                   /\ url_origin_fuel dbg hp ho hd f c u = OOk (Tuple s h p) c)
      /\ (host_of u = Some None -> url_origin_fuel dbg hp ho hd f c u = OPanic)).
Proof.
  intros dbg hp ho hd f c u s Hs. split.
  - intros Hnb o c' H. exact (kind_by_scheme dbg hp ho hd f c u s o c' Hs Hnb H).
  - intros H5. split.
    + intros h Hh. exact (tuple_arm dbg hp ho hd f c u s h Hs H5 Hh).
    + intros Hh. exact (tuple_arm_no_host dbg hp ho hd f c u s Hs H5 Hh).
Qed.
Check C16_tuple_schemes : forall dbg hp ho hd f c u s,
  scheme u = Some s ->
  (s <> s_blob -> forall o c', url_origin_fuel dbg hp ho hd f c u = OOk o c' ->
     (is_tuple o = true <-> In s [s_ftp; s_http; s_https; s_ws; s_wss]))
  /\ (In s [s_ftp; s_http; s_https; s_ws; s_wss] ->
      (forall h, host_of u = Some (Some h) ->
         exists p, port_or_known_default u = Some (Some p)
                   /\ url_origin_fuel dbg hp ho hd f c u = OOk (Tuple s h p) c)
      /\ (host_of u = Some None -> url_origin_fuel dbg hp ho hd f c u = OPanic)).
Print Assumptions C16_tuple_schemes.

(* blob: the origin of a blob URL is the origin of the URL its path parses to (same origin, same
   counter afterwards) when the path parses, a fresh opaque origin when it does not; the two fuel
   premises are discharged by C16_fuel (C16_blob_total below is the statement without them) *)
Theorem C16_blob : forall dbg hp ho hd c u p,
  scheme u = Some s_blob -> path u = Some p ->
  match url_parse dbg hp ho hd p with
  | POk v => url_origin dbg hp ho hd c u <> OFuel -> url_origin dbg hp ho hd c v <> OFuel ->
             url_origin dbg hp ho hd c u = url_origin dbg hp ho hd c v
  | PErr _ => url_origin dbg hp ho hd c u = new_opaque c
  | PPanic => url_origin dbg hp ho hd c u = OPanic
  end.
Proof. exact blob_origin. Qed.
Check C16_blob : forall dbg hp ho hd c u p,
  scheme u = Some s_blob -> path u = Some p ->
  match url_parse dbg hp ho hd p with
  | POk v => url_origin dbg hp ho hd c u <> OFuel -> url_origin dbg hp ho hd c v <> OFuel ->
             url_origin dbg hp ho hd c u = url_origin dbg hp ho hd c v
  | PErr _ => url_origin dbg hp ho hd c u = new_opaque c
  | PPanic => url_origin dbg hp ho hd c u = OPanic
  end.
Print Assumptions C16_blob.

(* the fuel of the blob recursion (length of the serialization) never runs out.
   FULL statement: for every record, whatever the host functions. *)
Definition C16_fuel_statement : Prop :=
  forall dbg hp ho hd c u, url_origin dbg hp ho hd c u <> OFuel.
(* FIRST PROVED relative to one fact about the parser model, stated as an explicit premise (the premise is
   now a theorem - C16_parse_colons - and the full statement is C16_fuel below): a URL with scheme
   blob parsed from a text has a path with fewer ':' than that text (each level of nesting consumes the
   ':' of a "blob:" prefix; nothing adds a ':' to a path).  The length of the inner serialization is NOT
   a measure: percent-encoding can make it longer than the outer one (see the Example). *)
Theorem C16_fuel_partial : forall dbg hp ho hd,
  (forall p v p', url_parse dbg hp ho hd p = POk v -> scheme v = Some s_blob -> path v = Some p' ->
                  (count58 p' < count58 p)%nat) ->
  forall c u, url_origin dbg hp ho hd c u <> OFuel.
Proof. exact fuel_never_out. Qed.
Check C16_fuel_partial : forall dbg hp ho hd,
  (forall p v p', url_parse dbg hp ho hd p = POk v -> scheme v = Some s_blob -> path v = Some p' ->
                  (count58 p' < count58 p)%nat) ->
  forall c u, url_origin dbg hp ho hd c u <> OFuel.
Print Assumptions C16_fuel_partial.

(* THE PARSER FACT, PROVED for the parser model and arbitrary host functions: Url::parse(p) = Ok(v), v not a
   file URL  ==>  the path of v has fewer ':' than p.  (chars() makes no ':' out of other bytes; the scheme state
   consumes one ':'; percent-encoding writes '%' and hex digits or copies; the path states append encoded input
   and '/' or cut behind path_start; the "/." marker and the host text - whatever Display writes - are in front
   of the path.)  With it comes: the scheme slice of the result is the scheme that was read, for every scheme
   type - which is how "scheme v = blob" selects the non-special branch. *)
Theorem C16_parse_colons : forall dbg hp ho hd p v s p',
  url_parse dbg hp ho hd p = POk v -> scheme v = Some s -> s <> s_file -> path v = Some p' ->
  (count58 p' < count58 p)%nat.
Proof. intros dbg hp ho hd p v s p' Hv Hs Hn Hp. exact (url_parse_colons dbg hp ho hd p v Hv s Hs Hn p' Hp). Qed.
Check C16_parse_colons : forall dbg hp ho hd p v s p',
  url_parse dbg hp ho hd p = POk v -> scheme v = Some s -> s <> s_file -> path v = Some p' ->
  (count58 p' < count58 p)%nat.
Print Assumptions C16_parse_colons.

(* the exclusion of file URLs is necessary: the drive-letter quirk turns '|' into ':' - file:/C|/ (one ':')
   parses to a URL with the path /C:/ (one ':').  Not a defect (the Standard does the same); file URLs never
   reach the blob recursion. *)
Theorem C16_parse_colons_file_refuted :
  exists v, toy_parse t_file_c_bar = POk v /\ scheme v = Some s_file /\ path v = Some t_path_c_colon
            /\ ~ (count58 t_path_c_colon < count58 t_file_c_bar)%nat.
Proof. exact colons_file_witness. Qed.
Check C16_parse_colons_file_refuted :
  exists v, toy_parse t_file_c_bar = POk v /\ scheme v = Some s_file /\ path v = Some t_path_c_colon
            /\ ~ (count58 t_path_c_colon < count58 t_file_c_bar)%nat.
Print Assumptions C16_parse_colons_file_refuted.

(* FULL: the fuel never runs out - for every record, every counter, whatever the host functions *)
Theorem C16_fuel : C16_fuel_statement.
Proof. exact fuel_always_enough. Qed.
Check C16_fuel : forall dbg hp ho hd c u, url_origin dbg hp ho hd c u <> OFuel.
Print Assumptions C16_fuel.

(* hence C16_blob without its two fuel premises *)
Theorem C16_blob_total : forall dbg hp ho hd c u p,
  scheme u = Some s_blob -> path u = Some p ->
  match url_parse dbg hp ho hd p with
  | POk v => url_origin dbg hp ho hd c u = url_origin dbg hp ho hd c v
  | PErr _ => url_origin dbg hp ho hd c u = new_opaque c
  | PPanic => url_origin dbg hp ho hd c u = OPanic
  end.
Proof. exact blob_origin_total. Qed.
Check C16_blob_total : forall dbg hp ho hd c u p,
  scheme u = Some s_blob -> path u = Some p ->
  match url_parse dbg hp ho hd p with
  | POk v => url_origin dbg hp ho hd c u = url_origin dbg hp ho hd c v
  | PErr _ => url_origin dbg hp ho hd c u = new_opaque c
  | PPanic => url_origin dbg hp ho hd c u = OPanic
  end.
Print Assumptions C16_blob_total.

(* opaque kinds: file URLs, URLs whose scheme is neither blob nor one of the five, and blob URLs whose
   path does not parse get Origin::new_opaque(); with the regenerated fetch_add that is the identity
   `counter` and the counter incremented; an opaque origin is equal to nothing but itself (so, with
   C16_opaque / C16_sequence, to no other origin ever created) *)
Theorem C16_opaque_kinds : forall dbg hp ho hd c u s,
  scheme u = Some s ->
  ((s = s_file \/ (s <> s_blob /\ ~ In s [s_ftp; s_http; s_https; s_ws; s_wss])) ->
     url_origin dbg hp ho hd c u = new_opaque c)
  /\ (s = s_blob -> forall p e, path u = Some p -> url_parse dbg hp ho hd p = PErr e ->
        url_origin dbg hp ho hd c u = new_opaque c)
  /\ (c + 1 < USIZE_MOD -> new_opaque c = OOk (Opaque c) (c + 1))
  /\ (forall i o, origin_eqb (Opaque i) o = true <-> o = Opaque i).
Proof. exact opaque_kinds. Qed.
Check C16_opaque_kinds : forall dbg hp ho hd c u s,
  scheme u = Some s ->
  ((s = s_file \/ (s <> s_blob /\ ~ In s [s_ftp; s_http; s_https; s_ws; s_wss])) ->
     url_origin dbg hp ho hd c u = new_opaque c)
  /\ (s = s_blob -> forall p e, path u = Some p -> url_parse dbg hp ho hd p = PErr e ->
        url_origin dbg hp ho hd c u = new_opaque c)
  /\ (c + 1 < USIZE_MOD -> new_opaque c = OOk (Opaque c) (c + 1))
  /\ (forall i o, origin_eqb (Opaque i) o = true <-> o = Opaque i).
Print Assumptions C16_opaque_kinds.

(* one thread computing the origins of any list of URLs one after the other: all opaque identities it
   receives are pairwise distinct and none is below the starting counter *)
Theorem C16_sequence : forall dbg hp ho hd us c,
  c + N.of_nat (length us) < USIZE_MOD ->
  let rs := origins_of dbg hp ho hd c us in
  NoDup (opaque_ids rs) /\ Forall (fun i => c <= i) (opaque_ids rs).
Proof. exact sequence_ids. Qed.
Check C16_sequence : forall dbg hp ho hd us c,
  c + N.of_nat (length us) < USIZE_MOD ->
  let rs := origins_of dbg hp ho hd c us in
  NoDup (opaque_ids rs) /\ Forall (fun i => c <= i) (opaque_ids rs).
Print Assumptions C16_sequence.

(* round trip.  FULL statement: for the origin o of every parse result, if o is a tuple then its ASCII
   and its Unicode serialization parse to URLs whose origin is o - given that the host functions are
   mutually inverse on the host of o (C09_display_rt) and that the ToUnicode form parses back to the
   ASCII host (C12). *)
Definition C16_rt_statement : Prop :=
  forall dbg hp ho hd tu input u c o c',
    url_parse dbg hp ho hd input = POk u ->
    url_origin dbg hp ho hd c u = OOk o c' -> is_tuple o = true ->
    (forall s h p, o = Tuple s h p ->
       hp (str_chars (host_fmt hd h)) = Ok h
       /\ (forall d, h = HDomain d -> hp (str_chars (tu d)) = Ok h)) ->
    (exists w, url_parse dbg hp ho hd (ascii_serialization hd o) = POk w
               /\ url_origin dbg hp ho hd c' w = OOk o c')
    /\ (exists w, url_parse dbg hp ho hd (unicode_serialization hd tu o) = POk w
                  /\ url_origin dbg hp ho hd c' w = OOk o c').
(* PROVED: the exact shape of both serializations - scheme "://" host [":" port], the port written
   exactly when it is not the scheme's default, "null" for opaque origins - for all origins.  The parser
   half is C16_rt_plain below (domains and IPv4 hosts). *)
Theorem C16_rt_partial : forall hd tu s h p,
  ascii_serialization hd (Tuple s h p)
  = s ++ s_css ++ host_fmt hd h ++ (if opt_eqb (default_port s) (Some p) then [] else 58 :: decimal p)
  /\ unicode_serialization hd tu (Tuple s h p)
     = s ++ s_css ++ host_fmt hd (match h with HDomain d => HDomain (tu d) | _ => h end)
         ++ (if opt_eqb (default_port s) (Some p) then [] else 58 :: decimal p)
  /\ (default_port s = Some p -> ascii_serialization hd (Tuple s h p) = s ++ s_css ++ host_fmt hd h)
  /\ (default_port s <> Some p ->
      ascii_serialization hd (Tuple s h p) = s ++ s_css ++ host_fmt hd h ++ 58 :: decimal p)
  /\ (forall i, ascii_serialization hd (Opaque i) = s_null /\ unicode_serialization hd tu (Opaque i) = s_null).
Proof. exact serialization_shape. Qed.
Check C16_rt_partial : forall hd tu s h p,
  ascii_serialization hd (Tuple s h p)
  = s ++ s_css ++ host_fmt hd h ++ (if opt_eqb (default_port s) (Some p) then [] else 58 :: decimal p)
  /\ unicode_serialization hd tu (Tuple s h p)
     = s ++ s_css ++ host_fmt hd (match h with HDomain d => HDomain (tu d) | _ => h end)
         ++ (if opt_eqb (default_port s) (Some p) then [] else 58 :: decimal p)
  /\ (default_port s = Some p -> ascii_serialization hd (Tuple s h p) = s ++ s_css ++ host_fmt hd h)
  /\ (default_port s <> Some p ->
      ascii_serialization hd (Tuple s h p) = s ++ s_css ++ host_fmt hd h ++ 58 :: decimal p)
  /\ (forall i, ascii_serialization hd (Opaque i) = s_null /\ unicode_serialization hd tu (Opaque i) = s_null).
Print Assumptions C16_rt_partial.

(* PROVED, the parser half included, for every tuple origin (s, h, p) whose host text is plain (printable ASCII
   without : / \ ? # @ [ ] - all domains and IPv4 addresses, not IPv6) by symbolic execution of the parser
   model on  scheme "://" host [":" port]: given that Display and Host::parse are inverse on this host (C09)
   and the text is shorter than 2^32, the ASCII serialization parses to a URL whose origin is (s, h, p) again;
   the same for the Unicode serialization when the ToUnicode form of the domain is plain ASCII as well and
   parses back to h (C12).  Every port below 2^16 is read back from its decimal text (finite sweep).
   Not covered here: IPv6 hosts (C16_rt_bracket, C16_rt_ipv6_model below) and non-ASCII Unicode forms. *)
Theorem C16_rt_plain : forall dbg hp ho hd tu s h p,
  In s [s_ftp; s_http; s_https; s_ws; s_wss] -> p <= 65535 ->
  plain_text (host_fmt hd h) -> hd h = host_fmt hd h -> hp (host_fmt hd h) = Ok h ->
  nlen (ascii_serialization hd (Tuple s h p)) < U32_MAX_P ->
  (exists w, url_parse dbg hp ho hd (ascii_serialization hd (Tuple s h p)) = POk w
             /\ forall f k, url_origin_fuel dbg hp ho hd f k w = OOk (Tuple s h p) k)
  /\ (forall d, h = HDomain d -> plain_text (tu d) -> hp (tu d) = Ok h ->
      exists w, url_parse dbg hp ho hd (unicode_serialization hd tu (Tuple s h p)) = POk w
                /\ forall f k, url_origin_fuel dbg hp ho hd f k w = OOk (Tuple s h p) k).
Proof. exact rt_plain. Qed.
Check C16_rt_plain : forall dbg hp ho hd tu s h p,
  In s [s_ftp; s_http; s_https; s_ws; s_wss] -> p <= 65535 ->
  plain_text (host_fmt hd h) -> hd h = host_fmt hd h -> hp (host_fmt hd h) = Ok h ->
  nlen (ascii_serialization hd (Tuple s h p)) < U32_MAX_P ->
  (exists w, url_parse dbg hp ho hd (ascii_serialization hd (Tuple s h p)) = POk w
             /\ forall f k, url_origin_fuel dbg hp ho hd f k w = OOk (Tuple s h p) k)
  /\ (forall d, h = HDomain d -> plain_text (tu d) -> hp (tu d) = Ok h ->
      exists w, url_parse dbg hp ho hd (unicode_serialization hd tu (Tuple s h p)) = POk w
                /\ forall f k, url_origin_fuel dbg hp ho hd f k w = OOk (Tuple s h p) k).
Print Assumptions C16_rt_plain.

(* C16_rt_statement in its generality - ARBITRARY host functions that are merely inverse on the host of the
   origin - is FALSE: if Host::parse may return a domain whose text contains '/', the serialization is cut at
   that '/' when parsed again.  Witness (stand-in functions: "x", "a/b" -> Domain("a/b"); "a" -> Domain("z")):
   https://x/ has the origin (https, a/b, 443), serialized https://a/b, which parses to a URL with the origin
   (https, z, 443).  The real Host::parse never returns such a domain (C09_domain): a fact about the statement,
   not a defect of the crate.  The premises plain_text / bracket_text of C16_rt_plain / C16_rt_bracket are what
   excludes it; they hold for everything the host model returns. *)
Theorem C16_rt_refuted : ~ C16_rt_statement.
Proof. exact rt_full_refuted. Qed.
Check C16_rt_refuted : ~ C16_rt_statement.
Print Assumptions C16_rt_refuted.

(* PROVED, the parser half included, for every tuple origin (s, h, p) whose host text is bracketed: "[" body "]",
   body printable ASCII without / \ ? # @ [ ] - ':' allowed - i.e. IPv6 hosts: inside the brackets the host state
   of the parser does not stop at ':'.  Same premises as C16_rt_plain (Display and Host::parse inverse on this
   host, C09; text shorter than 2^32).  For a host that is not a domain the Unicode serialization is the ASCII one. *)
Theorem C16_rt_bracket : forall dbg hp ho hd tu s h p,
  In s [s_ftp; s_http; s_https; s_ws; s_wss] -> p <= 65535 ->
  bracket_text (host_fmt hd h) -> hd h = host_fmt hd h -> hp (host_fmt hd h) = Ok h ->
  nlen (ascii_serialization hd (Tuple s h p)) < U32_MAX_P ->
  (exists w, url_parse dbg hp ho hd (ascii_serialization hd (Tuple s h p)) = POk w
             /\ forall f k, url_origin_fuel dbg hp ho hd f k w = OOk (Tuple s h p) k)
  /\ ((forall d, h <> HDomain d) ->
      exists w, url_parse dbg hp ho hd (unicode_serialization hd tu (Tuple s h p)) = POk w
                /\ forall f k, url_origin_fuel dbg hp ho hd f k w = OOk (Tuple s h p) k).
Proof. exact rt_bracket. Qed.
Check C16_rt_bracket : forall dbg hp ho hd tu s h p,
  In s [s_ftp; s_http; s_https; s_ws; s_wss] -> p <= 65535 ->
  bracket_text (host_fmt hd h) -> hd h = host_fmt hd h -> hp (host_fmt hd h) = Ok h ->
  nlen (ascii_serialization hd (Tuple s h p)) < U32_MAX_P ->
  (exists w, url_parse dbg hp ho hd (ascii_serialization hd (Tuple s h p)) = POk w
             /\ forall f k, url_origin_fuel dbg hp ho hd f k w = OOk (Tuple s h p) k)
  /\ ((forall d, h <> HDomain d) ->
      exists w, url_parse dbg hp ho hd (unicode_serialization hd tu (Tuple s h p)) = POk w
                /\ forall f k, url_origin_fuel dbg hp ho hd f k w = OOk (Tuple s h p) k).
Print Assumptions C16_rt_bracket.

(* IPv6, NO premise left about the host functions: with Host::parse and Display of the host MODEL (Model/Host.v,
   any IDNA function, any Host::parse_opaque), for EVERY IPv6 address a (eight 16-bit pieces), every one of the
   five schemes and every port, both serializations of (s, Ipv6(a), p) parse - through the parser model - to a
   URL whose origin is (s, Ipv6(a), p) again.  (Display writes "[" hex digits and ':' "]", at most 65 bytes;
   Host::parse inverts it on all 2^128 addresses - C09_ipv6_rt.) *)
Theorem C16_rt_ipv6_model : forall dbg idna ho tu s a p,
  In s [s_ftp; s_http; s_https; s_ws; s_wss] -> p <= 65535 ->
  length a = 8%nat -> Forall (fun x => x < 65536) a ->
  (exists w, url_parse dbg (Host.host_parse idna) ho Host.host_display
               (ascii_serialization Host.host_display (Tuple s (HIpv6 a) p)) = POk w
             /\ forall f k, url_origin_fuel dbg (Host.host_parse idna) ho Host.host_display f k w
                            = OOk (Tuple s (HIpv6 a) p) k)
  /\ (exists w, url_parse dbg (Host.host_parse idna) ho Host.host_display
                  (unicode_serialization Host.host_display tu (Tuple s (HIpv6 a) p)) = POk w
                /\ forall f k, url_origin_fuel dbg (Host.host_parse idna) ho Host.host_display f k w
                               = OOk (Tuple s (HIpv6 a) p) k).
Proof. exact rt_ipv6_model. Qed.
Check C16_rt_ipv6_model : forall dbg idna ho tu s a p,
  In s [s_ftp; s_http; s_https; s_ws; s_wss] -> p <= 65535 ->
  length a = 8%nat -> Forall (fun x => x < 65536) a ->
  (exists w, url_parse dbg (Host.host_parse idna) ho Host.host_display
               (ascii_serialization Host.host_display (Tuple s (HIpv6 a) p)) = POk w
             /\ forall f k, url_origin_fuel dbg (Host.host_parse idna) ho Host.host_display f k w
                            = OOk (Tuple s (HIpv6 a) p) k)
  /\ (exists w, url_parse dbg (Host.host_parse idna) ho Host.host_display
                  (unicode_serialization Host.host_display tu (Tuple s (HIpv6 a) p)) = POk w
                /\ forall f k, url_origin_fuel dbg (Host.host_parse idna) ho Host.host_display f k w
                               = OOk (Tuple s (HIpv6 a) p) k).
Print Assumptions C16_rt_ipv6_model.

(* THE STRONGEST TRUE FORM of the ASCII half of C16_rt_statement for arbitrary host functions: for the origin o of
   ANY result of Url::parse (parser model), if o is a tuple its ASCII serialization parses to a URL whose origin is
   o - provided Display writes a domain as it is and every host that Host::parse RETURNS has a plain or bracketed
   text which Display writes and Host::parse reads back as the same host.  That the scheme is one of the five,
   that the port is a u16 and that the host of the origin was returned by Host::parse are PROVED for origins of
   parse results (through the blob recursion), no longer assumed. *)
Theorem C16_rt_parsed : forall dbg hp ho hd input u c o c',
  (forall d, hd (HDomain d) = d) ->
  (forall t h, hp t = Ok h ->
     (plain_text (host_fmt hd h) \/ bracket_text (host_fmt hd h))
     /\ hd h = host_fmt hd h /\ hp (host_fmt hd h) = Ok h) ->
  url_parse dbg hp ho hd input = POk u -> url_origin dbg hp ho hd c u = OOk o c' -> is_tuple o = true ->
  nlen (ascii_serialization hd o) < U32_MAX_P ->
  exists w, url_parse dbg hp ho hd (ascii_serialization hd o) = POk w
            /\ url_origin dbg hp ho hd c' w = OOk o c'.
Proof.
  intros dbg hp ho hd input u c o c' Hdom HR. exact (rt_parsed dbg hp ho hd Hdom input u c o c' HR).
Qed.
Check C16_rt_parsed : forall dbg hp ho hd input u c o c',
  (forall d, hd (HDomain d) = d) ->
  (forall t h, hp t = Ok h ->
     (plain_text (host_fmt hd h) \/ bracket_text (host_fmt hd h))
     /\ hd h = host_fmt hd h /\ hp (host_fmt hd h) = Ok h) ->
  url_parse dbg hp ho hd input = POk u -> url_origin dbg hp ho hd c u = OOk o c' -> is_tuple o = true ->
  nlen (ascii_serialization hd o) < U32_MAX_P ->
  exists w, url_parse dbg hp ho hd (ascii_serialization hd o) = POk w
            /\ url_origin dbg hp ho hd c' w = OOk o c'.
Print Assumptions C16_rt_parsed.

(* the Unicode serialization of the origin of a parse result, same premises: it is the ASCII one for IPv4 / IPv6
   hosts; for a domain the round trip holds when the ToUnicode form is plain ASCII and Host::parse reads it back as
   the same host (C12).  Not covered: non-ASCII ToUnicode forms. *)
Theorem C16_rt_parsed_unicode : forall dbg hp ho hd tu input u c s h p c',
  (forall d, hd (HDomain d) = d) ->
  (forall t h, hp t = Ok h ->
     (plain_text (host_fmt hd h) \/ bracket_text (host_fmt hd h))
     /\ hd h = host_fmt hd h /\ hp (host_fmt hd h) = Ok h) ->
  url_parse dbg hp ho hd input = POk u -> url_origin dbg hp ho hd c u = OOk (Tuple s h p) c' ->
  nlen (ascii_serialization hd (Tuple s h p)) < U32_MAX_P ->
  match h with HDomain d => plain_text (tu d) /\ hp (tu d) = Ok h | _ => True end ->
  exists w, url_parse dbg hp ho hd (unicode_serialization hd tu (Tuple s h p)) = POk w
            /\ url_origin dbg hp ho hd c' w = OOk (Tuple s h p) c'.
Proof.
  intros dbg hp ho hd tu input u c s h p c' Hdom HR. exact (rt_parsed_unicode dbg hp ho hd Hdom tu input u c s h p c' HR).
Qed.
Check C16_rt_parsed_unicode : forall dbg hp ho hd tu input u c s h p c',
  (forall d, hd (HDomain d) = d) ->
  (forall t h, hp t = Ok h ->
     (plain_text (host_fmt hd h) \/ bracket_text (host_fmt hd h))
     /\ hd h = host_fmt hd h /\ hp (host_fmt hd h) = Ok h) ->
  url_parse dbg hp ho hd input = POk u -> url_origin dbg hp ho hd c u = OOk (Tuple s h p) c' ->
  nlen (ascii_serialization hd (Tuple s h p)) < U32_MAX_P ->
  match h with HDomain d => plain_text (tu d) /\ hp (tu d) = Ok h | _ => True end ->
  exists w, url_parse dbg hp ho hd (unicode_serialization hd tu (Tuple s h p)) = POk w
            /\ url_origin dbg hp ho hd c' w = OOk (Tuple s h p) c'.
Print Assumptions C16_rt_parsed_unicode.

(* ... and both premises hold for the host MODEL relative to C09's hypothesis on the IDNA function (domains it
   returns are lower-case ASCII without forbidden code points, IPv4 texts are dotted decimal, IPv6 texts bracketed;
   Display/parse round trip = C09_display_rt).  So: parser model + host model, ANY input, ANY nesting of blob:,
   any Host::parse_opaque - the ASCII serialization of the tuple origin of the parse result parses back to a URL
   with that origin.  Remaining premises: IdnaOK idna (C09 / C12) and a serialization shorter than 2^32. *)
Theorem C16_rt_parsed_model : forall dbg idna ho input u c o c',
  C09_Host.IdnaOK idna ->
  url_parse dbg (Host.host_parse idna) ho Host.host_display input = POk u ->
  url_origin dbg (Host.host_parse idna) ho Host.host_display c u = OOk o c' -> is_tuple o = true ->
  nlen (ascii_serialization Host.host_display o) < U32_MAX_P ->
  exists w, url_parse dbg (Host.host_parse idna) ho Host.host_display (ascii_serialization Host.host_display o) = POk w
            /\ url_origin dbg (Host.host_parse idna) ho Host.host_display c' w = OOk o c'.
Proof. exact rt_parsed_model. Qed.
Check C16_rt_parsed_model : forall dbg idna ho input u c o c',
  C09_Host.IdnaOK idna ->
  url_parse dbg (Host.host_parse idna) ho Host.host_display input = POk u ->
  url_origin dbg (Host.host_parse idna) ho Host.host_display c u = OOk o c' -> is_tuple o = true ->
  nlen (ascii_serialization Host.host_display o) < U32_MAX_P ->
  exists w, url_parse dbg (Host.host_parse idna) ho Host.host_display (ascii_serialization Host.host_display o) = POk w
            /\ url_origin dbg (Host.host_parse idna) ho Host.host_display c' w = OOk o c'.
Print Assumptions C16_rt_parsed_model.

(* non-vacuity: the whole chain executed inside Coq (real parser model, stand-in host functions that
   keep a domain as it is).  https://example.com:8443/x has the tuple origin (https, example.com, 8443),
   which serializes to https://example.com:8443, which parses to a URL with the same origin;
   blob:blob:https://h:443/x has the origin (https, h, 443) of the embedded URL, serialized as https://h
   (default port elided) and round-trips; data:x, blob:garbage, file:///tmp/x and blob:blob:/ + three
   double quotes (whose inner serialization is longer than the outer path - the fuel still suffices)
   take consecutive opaque identities; http://h:80/ and ws://h/ agree on host and effective port and
   differ in scheme, so their origins are unequal. *)
Example C16_premises_hold :
  rt_of_text t_https_example_8443_x
  = Some (Tuple s_https (HDomain t_example_com) 8443, t_https_example_8443,
          Some (OOk (Tuple s_https (HDomain t_example_com) 8443) 0))
  /\ rt_of_text t_blob_blob_https_h_443_x
     = Some (Tuple s_https (HDomain [104]) 443, t_https_h, Some (OOk (Tuple s_https (HDomain [104]) 443) 0))
  /\ origin_of_text 5 t_data_x = Some (OOk (Opaque 5) 6)
  /\ origin_of_text 6 t_blob_garbage = Some (OOk (Opaque 6) 7)
  /\ origin_of_text 7 t_file_tmp_x = Some (OOk (Opaque 7) 8)
  /\ origin_of_text 0 t_blob_blob_quotes = Some (OOk (Opaque 0) 1)
  /\ origin_of_text 0 t_http_h_80 = Some (OOk (Tuple s_http (HDomain [104]) 80) 0)
  /\ origin_of_text 0 t_ws_h = Some (OOk (Tuple s_ws (HDomain [104]) 80) 0)
  /\ origin_eqb (Tuple s_http (HDomain [104]) 80) (Tuple s_ws (HDomain [104]) 80) = false.
Proof. exact examples. Qed.

(* non-vacuity of the theorems added with C16_fuel / C16_rt_bracket: blob:blob:https://h:443/x (4 ':') parses to a
   blob URL whose path blob:https://h:443/x has 3; the host model writes Ipv6(::1) as [::1] (bracketed), so
   (https, ::1, 8443) serializes to https://[::1]:8443, and (http, 2001:db8::1:0:0:1, 80) to
   http://[2001:db8::1:0:0:1] - the inputs of C16_rt_ipv6_model. *)
Example C16_premises_hold_2 :
  (exists v, toy_parse t_blob_blob_https_h_443_x = POk v /\ scheme v = Some s_blob
             /\ path v = Some t_blob_https_h_443_x
             /\ count58 t_blob_https_h_443_x = 3%nat /\ count58 t_blob_blob_https_h_443_x = 4%nat)
  /\ Host.host_display (HIpv6 [0; 0; 0; 0; 0; 0; 0; 1]) = [91; 58; 58; 49; 93]
  /\ ascii_serialization Host.host_display (Tuple s_https (HIpv6 [0; 0; 0; 0; 0; 0; 0; 1]) 8443)
     = [104; 116; 116; 112; 115; 58; 47; 47; 91; 58; 58; 49; 93; 58; 56; 52; 52; 51]
  /\ ascii_serialization Host.host_display (Tuple s_http (HIpv6 [8193; 3512; 0; 0; 1; 0; 0; 1]) 80)
     = [104; 116; 116; 112; 58; 47; 47; 91; 50; 48; 48; 49; 58; 100; 98; 56; 58; 58; 49; 58; 48; 58; 48; 58; 49; 93].
Proof. exact (conj colons_example ipv6_texts). Qed.

(* the premise IdnaOK of C16_rt_parsed_model is satisfiable: the identity on ASCII strings without denied
   characters (so the premises of C16_rt_parsed hold for Host.host_parse idna_clean / Host.host_display) *)
Example C16_premises_hold_3 : C09_Host.IdnaOK idna_clean.
Proof. exact idna_clean_ok. Qed.

(* ---- appended block (task idna7): the Unicode half at host level ---- *)
From RU Require Import Base.U32_c13 Model.Punycode Model.Uts46 Proofs.Idna_Known Proofs.Idna_Hyp Proofs.Idna_C10_Inner
  Proofs.Idna_C10b_Long Proofs.Idna_C10b_Stmt Proofs.Idna_WalkEnc Proofs.Idna_C10c_Drun Proofs.Idna_C12c_Stmt4
  Proofs.Idna_C12d_Round Proofs.Idna_C12d_Stmt5 Proofs.C09_InstIdna Proofs.C16_UniHost.

(* the premise `hp (tu d) = Ok h` of C16_rt_parsed_unicode for the host model linked with the IDNA model and the
   ToUnicode model, non-ASCII Unicode forms included: Host::parse reads the Unicode form of a domain it returned back as
   that domain.  Relative to the eight sampled adapter facts of C12_5, outside Known_C12 / Known_C10_long, and to the
   explicit premises (P1) ToUnicode at the EMPTY deny list (origin.rs) = ToUnicode at the URL deny list (host.rs) on d,
   (P2) no '%' in the Unicode form and no leading '['.  See theorem_notes in tools/props_d/C16.py *)
Theorem C16_unicode_host : forall A cfg,
  AdapterOK A -> AdapterUSV A -> NvNoTrunc A -> NvIdem A -> AsciiNoMark A -> MapPrefix A -> NvMapFix A -> NvNoGrow A ->
  forall d b, Forall (fun c => c < 128) d -> to_ascii A cfg d DENY_URL HAllow DIgnore = U32_c13.Ok (b, d) ->
  Known_C12 A cfg d DENY_URL HAllow = false -> Known_C10_long d = false ->
  d <> [] -> Host.ends_in_a_number d = false ->
  let t := ui_text (domain_to_unicode A cfg d) in
  ui_text (to_unicode A cfg d DENY_EMPTY HAllow) = ui_text (to_unicode A cfg d DENY_URL HAllow) ->
  ~ In 37 (utf8_encode t) -> Host.starts_with 91 t = false ->
  Host.host_parse (idna_of A cfg) t = HostT.Ok (HDomain d).
Proof. exact uni_host_rt_origin. Qed.
Check C16_unicode_host : forall A cfg,
  AdapterOK A -> AdapterUSV A -> NvNoTrunc A -> NvIdem A -> AsciiNoMark A -> MapPrefix A -> NvMapFix A -> NvNoGrow A ->
  forall d b, Forall (fun c => c < 128) d -> to_ascii A cfg d DENY_URL HAllow DIgnore = U32_c13.Ok (b, d) ->
  Known_C12 A cfg d DENY_URL HAllow = false -> Known_C10_long d = false ->
  d <> [] -> Host.ends_in_a_number d = false ->
  let t := ui_text (domain_to_unicode A cfg d) in
  ui_text (to_unicode A cfg d DENY_EMPTY HAllow) = ui_text (to_unicode A cfg d DENY_URL HAllow) ->
  ~ In 37 (utf8_encode t) -> Host.starts_with 91 t = false ->
  Host.host_parse (idna_of A cfg) t = HostT.Ok (HDomain d).
Print Assumptions C16_unicode_host.

Example C16_unicode_host_premises_hold :
  (AdapterOK lowsan4 /\ AdapterUSV lowsan4 /\ NvNoTrunc lowsan4 /\ NvIdem lowsan4 /\ AsciiNoMark lowsan4 /\ MapPrefix lowsan4 /\
   NvMapFix lowsan4 /\ NvNoGrow lowsan4) /\
  to_ascii lowsan4 true W_stmt5_A DENY_URL HAllow DIgnore = U32_c13.Ok (true, W_stmt5_A) /\
  Known_C12 lowsan4 true W_stmt5_A DENY_URL HAllow = false /\ Known_C10_long W_stmt5_A = false /\
  Host.ends_in_a_number W_stmt5_A = false /\
  ui_text (domain_to_unicode lowsan4 true W_stmt5_A) = W_stmt5_U /\
  ui_text (to_unicode lowsan4 true W_stmt5_A DENY_EMPTY HAllow) = ui_text (to_unicode lowsan4 true W_stmt5_A DENY_URL HAllow) /\
  existsb (N.eqb 37) (utf8_encode W_stmt5_U) = false /\ Host.starts_with 91 W_stmt5_U = false /\
  Host.host_parse (idna_of lowsan4 true) W_stmt5_U = HostT.Ok (HDomain W_stmt5_A).
Proof. split; [exact lowsan4_premises5|exact uni_host_example]. Qed.

(* ---- appended block (task c16fin): the Unicode half, premises P1 / P2 discharged, parser model on non-ASCII host text ---- *)
From RU Require Import Proofs.C16_UniDeny Proofs.C16_RTU Proofs.C16_V4 Proofs.C16_RTUModel.

(* (P1) PROVED, for every adapter: for a name that ToASCII accepts at the URL deny list (what Host::parse calls), ToUnicode
   at the EMPTY deny list (what origin.rs calls through idna::domain_to_unicode) and ToUnicode at the URL deny list are
   the same result - text, borrowed flag and error flag.  (An error-free fail-fast run of process_inner at a deny list
   is the run at every smaller deny list that still denies the upper-case letters: Proofs/C16_UniDeny.v deny_sub.) *)
Theorem C16_unicode_deny_lists : forall A cfg d b a,
  to_ascii A cfg d DENY_URL HAllow DIgnore = U32_c13.Ok (b, a) ->
  to_unicode A cfg d DENY_EMPTY HAllow = to_unicode A cfg d DENY_URL HAllow.
Proof. exact p1_empty_url. Qed.
Check C16_unicode_deny_lists : forall A cfg d b a,
  to_ascii A cfg d DENY_URL HAllow DIgnore = U32_c13.Ok (b, a) ->
  to_unicode A cfg d DENY_EMPTY HAllow = to_unicode A cfg d DENY_URL HAllow.
Print Assumptions C16_unicode_deny_lists.

(* (P2) PROVED relative to six of the sampled adapter facts: the Unicode form of a name accepted at the URL deny list
   has no byte '%' in its UTF-8 form and does not start with '[' (every ASCII character of it is outside the URL deny
   list, which contains both) *)
Theorem C16_unicode_form_clean : forall A cfg,
  AdapterOK A -> AdapterUSV A -> NvNoTrunc A -> NvIdem A -> AsciiNoMark A -> MapPrefix A ->
  forall d b a, bytes d -> to_ascii A cfg d DENY_URL HAllow DIgnore = U32_c13.Ok (b, a) ->
  let t := ui_text (to_unicode A cfg d DENY_URL HAllow) in
  ~ In 37 (utf8_encode t) /\ Host.starts_with 91 t = false.
Proof. exact p2_url. Qed.
Check C16_unicode_form_clean : forall A cfg,
  AdapterOK A -> AdapterUSV A -> NvNoTrunc A -> NvIdem A -> AsciiNoMark A -> MapPrefix A ->
  forall d b a, bytes d -> to_ascii A cfg d DENY_URL HAllow DIgnore = U32_c13.Ok (b, a) ->
  let t := ui_text (to_unicode A cfg d DENY_URL HAllow) in
  ~ In 37 (utf8_encode t) /\ Host.starts_with 91 t = false.
Print Assumptions C16_unicode_form_clean.

(* C16_unicode_host WITHOUT its premises P1 and P2: Host::parse (host model + IDNA model) reads the text origin.rs
   displays for a domain - non-ASCII forms included - back as that domain, and the text consists of scalar values.
   Premises: the eight sampled adapter facts; d is a ToASCII fixed point at the URL deny list, not empty, not ending in
   a number (all three hold for a domain returned by Host::parse outside F-C10-1), outside Known_C12 / Known_C10_long *)
Theorem C16_unicode_host_full : forall A cfg,
  AdapterOK A -> AdapterUSV A -> NvNoTrunc A -> NvIdem A -> AsciiNoMark A -> MapPrefix A -> NvMapFix A -> NvNoGrow A ->
  forall d b, Forall (fun c => c < 128) d -> to_ascii A cfg d DENY_URL HAllow DIgnore = U32_c13.Ok (b, d) ->
  Known_C12 A cfg d DENY_URL HAllow = false -> Known_C10_long d = false ->
  d <> [] -> Host.ends_in_a_number d = false ->
  Host.host_parse (idna_of A cfg) (ui_text (domain_to_unicode A cfg d)) = HostT.Ok (HDomain d)
  /\ usv_list (ui_text (domain_to_unicode A cfg d)).
Proof. exact uni_host_rt_full. Qed.
Check C16_unicode_host_full : forall A cfg,
  AdapterOK A -> AdapterUSV A -> NvNoTrunc A -> NvIdem A -> AsciiNoMark A -> MapPrefix A -> NvMapFix A -> NvNoGrow A ->
  forall d b, Forall (fun c => c < 128) d -> to_ascii A cfg d DENY_URL HAllow DIgnore = U32_c13.Ok (b, d) ->
  Known_C12 A cfg d DENY_URL HAllow = false -> Known_C10_long d = false ->
  d <> [] -> Host.ends_in_a_number d = false ->
  Host.host_parse (idna_of A cfg) (ui_text (domain_to_unicode A cfg d)) = HostT.Ok (HDomain d)
  /\ usv_list (ui_text (domain_to_unicode A cfg d)).
Print Assumptions C16_unicode_host_full.

(* the parser model on a NON-ASCII host text, arbitrary host functions: the byte string  scheme "://" UTF-8(T) [":" port]
   - T any non-empty list of scalar values above the space without : / \ ? # @ [ ] (freec), ASCII or not - parses to a URL
   whose origin is (scheme, h, port), when Host::parse reads T as h and Display writes h as a non-empty text not ending in '/' *)
Theorem C16_rt_unicode_text : forall dbg hp ho hd s c t h p,
  In s [s_ftp; s_http; s_https; s_ws; s_wss] -> p <= 65535 ->
  forallb freec (c :: t) = true -> usv_list (c :: t) -> hp (c :: t) = HostT.Ok h ->
  hd h = host_fmt hd h -> host_fmt hd h <> [] -> ends_with_byte 47 (host_fmt hd h) = false ->
  nlen (tuple_serialization s (host_fmt hd h) p) < U32_MAX_P ->
  exists w, url_parse dbg hp ho hd (tuple_serialization s (utf8_encode (c :: t)) p) = POk w
            /\ forall f k, url_origin_fuel dbg hp ho hd f k w = OOk (Tuple s h p) k.
Proof. exact rt_text_free. Qed.
Check C16_rt_unicode_text : forall dbg hp ho hd s c t h p,
  In s [s_ftp; s_http; s_https; s_ws; s_wss] -> p <= 65535 ->
  forallb freec (c :: t) = true -> usv_list (c :: t) -> hp (c :: t) = HostT.Ok h ->
  hd h = host_fmt hd h -> host_fmt hd h <> [] -> ends_with_byte 47 (host_fmt hd h) = false ->
  nlen (tuple_serialization s (host_fmt hd h) p) < U32_MAX_P ->
  exists w, url_parse dbg hp ho hd (tuple_serialization s (utf8_encode (c :: t)) p) = POk w
            /\ forall f k, url_origin_fuel dbg hp ho hd f k w = OOk (Tuple s h p) k.
Print Assumptions C16_rt_unicode_text.

(* THE UNICODE HALF for origins of parse results, non-ASCII ToUnicode forms included: parser model + host model + IDNA
   model (Host::parse's IDNA step = idna_of A cfg) + ToUnicode model (idna::domain_to_unicode = origin_tu A cfg), ANY
   input, any blob nesting, any Host::parse_opaque.  If the origin of the parse result is (s, Domain d, p), its Unicode
   serialization parses to a URL with that origin.  Premises: the eight sampled adapter facts; d is outside Known_C12
   (F-C12-1 / F-C16-1) and Known_C10_long (F-C10-1); ASCII serialization shorter than 2^32.  No IdnaOK, no premise on
   the host functions: that d - a domain RETURNED by Host::parse, outside Known_C10_long - is a fixed point of the IDNA
   step is proved (C10, idempotence of ToASCII). *)
Theorem C16_rt_unicode_model : forall A cfg,
  AdapterOK A -> AdapterUSV A -> NvNoTrunc A -> NvIdem A -> AsciiNoMark A -> MapPrefix A -> NvMapFix A -> NvNoGrow A ->
  forall dbg ho input u c s d p c',
  url_parse dbg (Host.host_parse (idna_of A cfg)) ho Host.host_display input = POk u ->
  url_origin dbg (Host.host_parse (idna_of A cfg)) ho Host.host_display c u = OOk (Tuple s (HDomain d) p) c' ->
  Known_C12 A cfg d DENY_URL HAllow = false -> Known_C10_long d = false ->
  nlen (ascii_serialization Host.host_display (Tuple s (HDomain d) p)) < U32_MAX_P ->
  exists w, url_parse dbg (Host.host_parse (idna_of A cfg)) ho Host.host_display
              (unicode_serialization Host.host_display (origin_tu A cfg) (Tuple s (HDomain d) p)) = POk w
            /\ url_origin dbg (Host.host_parse (idna_of A cfg)) ho Host.host_display c' w = OOk (Tuple s (HDomain d) p) c'.
Proof. exact rt_unicode_domain_model. Qed.
Check C16_rt_unicode_model : forall A cfg,
  AdapterOK A -> AdapterUSV A -> NvNoTrunc A -> NvIdem A -> AsciiNoMark A -> MapPrefix A -> NvMapFix A -> NvNoGrow A ->
  forall dbg ho input u c s d p c',
  url_parse dbg (Host.host_parse (idna_of A cfg)) ho Host.host_display input = POk u ->
  url_origin dbg (Host.host_parse (idna_of A cfg)) ho Host.host_display c u = OOk (Tuple s (HDomain d) p) c' ->
  Known_C12 A cfg d DENY_URL HAllow = false -> Known_C10_long d = false ->
  nlen (ascii_serialization Host.host_display (Tuple s (HDomain d) p)) < U32_MAX_P ->
  exists w, url_parse dbg (Host.host_parse (idna_of A cfg)) ho Host.host_display
              (unicode_serialization Host.host_display (origin_tu A cfg) (Tuple s (HDomain d) p)) = POk w
            /\ url_origin dbg (Host.host_parse (idna_of A cfg)) ho Host.host_display c' w = OOk (Tuple s (HDomain d) p) c'.
Print Assumptions C16_rt_unicode_model.

(* IPv4 hosts, NO hypothesis: Host::parse's IDNA step (IDNA model at the URL deny list, EVERY adapter) maps the
   dotted-decimal text of an IPv4 address to itself - the clause v4_fixed of C09_IdnaOK_of_model, which was a premise
   there - and the host model linked with it reads the text Display writes for an IPv4 address back as that address *)
Theorem C16_ipv4_display_model : forall A cfg,
  v4_fixed A cfg
  /\ (forall a, a < 4294967296 -> Host.host_parse (idna_of A cfg) (Host.ipv4_display a) = HostT.Ok (HIpv4 a)).
Proof. intros A cfg. split; [exact (v4_fixed_model A cfg)|exact (ipv4_display_rt_model A cfg)]. Qed.
Check C16_ipv4_display_model : forall A cfg,
  v4_fixed A cfg
  /\ (forall a, a < 4294967296 -> Host.host_parse (idna_of A cfg) (Host.ipv4_display a) = HostT.Ok (HIpv4 a)).
Print Assumptions C16_ipv4_display_model.

(* THE CORRECTED ROUND-TRIP STATEMENT (C16_rt_statement is refuted: its host functions are arbitrary): with the host
   functions of the models - Host::parse = host model + IDNA model at the URL deny list, Display = host model,
   idna::domain_to_unicode = ToUnicode model - for the origin o of EVERY parse result, if o is a tuple then its ASCII AND its
   Unicode serialization parse to URLs whose origin is o.  Relative to the eight sampled adapter facts, outside the known
   classes on the host of o (host_known_free: a domain is outside Known_C12 and Known_C10_long; nothing for an IPv4 or
   IPv6 address), for an ASCII serialization shorter than 2^32. *)
Definition C16_rt_statement2 : Prop :=
  forall A cfg,
  AdapterOK A -> AdapterUSV A -> NvNoTrunc A -> NvIdem A -> AsciiNoMark A -> MapPrefix A -> NvMapFix A -> NvNoGrow A ->
  forall dbg ho input u c o c',
  let hp := Host.host_parse (idna_of A cfg) in
  let hd := Host.host_display in
  url_parse dbg hp ho hd input = POk u -> url_origin dbg hp ho hd c u = OOk o c' -> is_tuple o = true ->
  (forall s h p, o = Tuple s h p -> host_known_free A cfg h) ->
  nlen (ascii_serialization hd o) < U32_MAX_P ->
  (exists w, url_parse dbg hp ho hd (ascii_serialization hd o) = POk w /\ url_origin dbg hp ho hd c' w = OOk o c')
  /\ (exists w, url_parse dbg hp ho hd (unicode_serialization hd (origin_tu A cfg) o) = POk w
                /\ url_origin dbg hp ho hd c' w = OOk o c').
Theorem C16_rt : C16_rt_statement2.
Proof. exact rt_both_model. Qed.
Check C16_rt : C16_rt_statement2.
Print Assumptions C16_rt.

(* THE EXCLUSION OF Known_C12 IN C16_rt IS NECESSARY, and the property as worded ("the Unicode serialization of a tuple
   origin parses back to a URL with the same origin") is FALSE of the code (F-C16-1 = F-C12-1 at the level of origins):
   for an adapter that satisfies all eight premises there is an input - https://xn--xn--ss-ztda/ - whose parse result has
   the tuple origin (https, xn--xn--ss-ztda, 443), the domain is a fixed point of the IDNA step and outside
   Known_C10_long, the ASCII serialization round-trips, the domain is in Known_C12, and the Unicode serialization
   https://xn--<U+02EF><U+02EF>ss is REJECTED by Url::parse (IdnaError).  Confirmed on the real crates:
   Url::parse("https://xn--xn--ss-ztda/").unwrap().origin().unicode_serialization() == "https://xn--\u{2ef}\u{2ef}ss" and
   Url::parse of that is Err(IdnaError) (known mode of the C16 harness, KNOWN-FINDING F-C16-1). *)
Theorem C16_rt_unicode_refuted : rt_unicode_refuted_stmt.
Proof. exact rt_unicode_refuted. Qed.
Check C16_rt_unicode_refuted :
  exists A,
    (AdapterOK A /\ AdapterUSV A /\ NvNoTrunc A /\ NvIdem A /\ AsciiNoMark A /\ MapPrefix A /\ NvMapFix A /\ NvNoGrow A)
    /\ exists input u s d p,
         url_parse true (Host.host_parse (idna_of A true)) Host.host_parse_opaque Host.host_display input = POk u
         /\ url_origin true (Host.host_parse (idna_of A true)) Host.host_parse_opaque Host.host_display 0 u = OOk (Tuple s (HDomain d) p) 0
         /\ idna_of A true d = Some d /\ Known_C10_long d = false /\ Known_C12 A true d DENY_URL HAllow = true
         /\ (exists w, url_parse true (Host.host_parse (idna_of A true)) Host.host_parse_opaque Host.host_display
                         (ascii_serialization Host.host_display (Tuple s (HDomain d) p)) = POk w
                       /\ url_origin true (Host.host_parse (idna_of A true)) Host.host_parse_opaque Host.host_display 0 w
                          = OOk (Tuple s (HDomain d) p) 0)
         /\ unicode_serialization Host.host_display (origin_tu A true) (Tuple s (HDomain d) p) = t_https_xn_u
         /\ url_parse true (Host.host_parse (idna_of A true)) Host.host_parse_opaque Host.host_display t_https_xn_u = PErr IdnaError.
Print Assumptions C16_rt_unicode_refuted.

(* non-vacuity of C16_rt / C16_rt_unicode_model, executed inside Coq (adapter lowsan4, whose eight premises are
   C16_unicode_host_premises_hold): HTTPS://A.B<u-umlaut>cher:443/x has the origin (https, a.xn--bcher-kva, 443); the domain is
   outside the known classes; the ASCII serialization is https://a.xn--bcher-kva, the Unicode serialization is the
   non-ASCII text https://a.b<u-umlaut>cher; both parse to a URL with the same origin *)
Example C16_rt_premises_hold :
  let o := Tuple s_https (HDomain W_stmt5_A) 443 in
  ex_origin_of t_HTTPS_A_Bucher_443_x = Some (OOk o 0)
  /\ (idna_of lowsan4 true W_stmt5_A = Some W_stmt5_A /\ Known_C12 lowsan4 true W_stmt5_A DENY_URL HAllow = false
      /\ Known_C10_long W_stmt5_A = false)
  /\ ascii_serialization Host.host_display o = t_https_a_xn_bcher
  /\ unicode_serialization Host.host_display (origin_tu lowsan4 true) o = t_https_a_bucher
  /\ ex_origin_of t_https_a_xn_bcher = Some (OOk o 0)
  /\ ex_origin_of t_https_a_bucher = Some (OOk o 0).
Proof. exact rt_unicode_example. Qed.

(* ---- appended block (task c09last): the origin round trip for the REAL idna oracle, premise on results only ---- *)
(* C16_rt_parsed_model is stated relative to IdnaOK idna, which is false of the real idna crate (F-C10-1); C09_inst2_C16_rt_parsed
   (Properties/C09.v) replaces it by IdnaOK2 + "parse and origin succeed with the capped oracle".  Here the premise is a
   predicate on RESULTS: origin_clean u = the parse result u and every URL of its blob chain (url_origin re-enters the
   parser on the path of a blob: URL) passes res_clean (Properties/C09.v: the stored host text is outside Known_C10_long; a
   file URL has kept its host); for a URL that is no blob: URL it is res_clean u alone.  All four runs are runs with the
   oracle ITSELF *)
From Coq Require Import String.
From RU Require Import Proofs.C09_Long Proofs.C09_RunClean Proofs.C09_RealOrigin.

Check (eq_refl : origin_clean = fun dbg idna u => chain_clean dbg idna (origin_fuel u) u).
Check (fun dbg idna f u => eq_refl : chain_clean dbg idna (S f) u =
  (res_clean u = true
   /\ match scheme u with
      | Some s =>
          if str_mem s T_ORIGIN_BLOB_SCHEMES then
            match path u with
            | Some p => match url_parse dbg (Host.host_parse idna) Host.host_parse_opaque Host.host_display p with
                        | POk v => chain_clean dbg idna f v
                        | _ => True
                        end
            | None => True
            end
          else True
      | None => True
      end)).

Theorem C16_rt_parsed_real : forall dbg idna, IdnaOK2 idna -> forall input u c o c',
  url_parse dbg (Host.host_parse idna) Host.host_parse_opaque Host.host_display input = POk u ->
  url_origin dbg (Host.host_parse idna) Host.host_parse_opaque Host.host_display c u = OOk o c' -> is_tuple o = true ->
  nlen (ascii_serialization Host.host_display o) < U32_MAX_P -> origin_clean dbg idna u ->
  exists w, url_parse dbg (Host.host_parse idna) Host.host_parse_opaque Host.host_display (ascii_serialization Host.host_display o) = POk w
            /\ url_origin dbg (Host.host_parse idna) Host.host_parse_opaque Host.host_display c' w = OOk o c'.
Proof. exact origin_rt_real. Qed.
Print Assumptions C16_rt_parsed_real.

(* a URL that is no blob: URL: res_clean u alone *)
Theorem C16_origin_clean_nonblob : forall dbg idna u s, scheme u = Some s -> str_mem s T_ORIGIN_BLOB_SCHEMES = false ->
  res_clean u = true -> origin_clean dbg idna u.
Proof. exact origin_clean_nonblob. Qed.
Print Assumptions C16_origin_clean_nonblob.

(* non-vacuity (stand-in oracle idna_long: IdnaOK2 holds, IdnaOK does not): https://a.b:8443/x and blob:https://a.b/x
   have clean chains and tuple origins; the result of http://x/ (host answered inside the class) does not pass res_clean *)
Example C16_rt_parsed_real_examples :
  IdnaOK2 idna_long
  /\ match url_parse true (Host.host_parse idna_long) Host.host_parse_opaque Host.host_display (C02_Reach.B "https://a.b:8443/x"%string) with
     | POk u => origin_clean true idna_long u
                /\ match url_origin true (Host.host_parse idna_long) Host.host_parse_opaque Host.host_display 0 u with
                   | OOk o _ => is_tuple o = true | _ => False end
     | _ => False end
  /\ match url_parse true (Host.host_parse idna_long) Host.host_parse_opaque Host.host_display (C02_Reach.B "blob:https://a.b/x"%string) with
     | POk u => origin_clean true idna_long u
                /\ match url_origin true (Host.host_parse idna_long) Host.host_parse_opaque Host.host_display 0 u with
                   | OOk o _ => is_tuple o = true | _ => False end
     | _ => False end
  /\ match url_parse true (Host.host_parse idna_long) Host.host_parse_opaque Host.host_display (C02_Reach.B "http://x/"%string) with
     | POk u => res_clean u = false | _ => False end.
Proof. exact (conj idna_long_ok2 origin_real_examples). Qed.
