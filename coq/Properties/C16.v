(* Properties/C16.v - Origins (stub; filled in below) *)
From RU Require Import Base.Prelude Gen.Tables Model.Origin.

Theorem C16_model_uses_fetch_add : decode_counter_op T_COUNTER_OP = FetchAdd.
Proof. vm_compute. reflexivity. Qed.
Check C16_model_uses_fetch_add : decode_counter_op T_COUNTER_OP = FetchAdd.
Print Assumptions C16_model_uses_fetch_add.
