(* Properties/C09.v - host parsing and serialization.  Only statements, closed by `exact`. *)
From RU Require Import Base.Prelude Base.Utf8 Model.AsciiSet Gen.Tables Model.PercentEncoding Model.HostT Model.Host.

(* the regenerated is_invalid_host_char list is the Standard's forbidden host code point list *)
Theorem C09_forbidden_host_table :
  T_HOST_INVALID_HOST_CHARS = [0; 9; 10; 13; 32; 35; 47; 58; 60; 62; 63; 64; 91; 92; 93; 94; 124].
Proof. exact eq_refl. Qed.
Check C09_forbidden_host_table :
  T_HOST_INVALID_HOST_CHARS = [0; 9; 10; 13; 32; 35; 47; 58; 60; 62; 63; 64; 91; 92; 93; 94; 124].
Print Assumptions C09_forbidden_host_table.
