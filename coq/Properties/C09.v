(* Properties/C09.v - host parsing and serialization.  Only statements, closed by `exact`.
   Lemmas: Proofs/C09_V6.v, C09_V6rt.v, C09_V6form.v, C09_V4.v, C09_Wf.v, C09_Host.v, C09_V6sim.v, C09_V6total.v;
   the host model against the hypothesis records of the URL-level theorems and against the Standard's host
   parser: Proofs/C09_Inst.v, C09_InstSpec.v, Inst_Host.v (last sections). *)
From Coq Require Import String.
From RU Require Import Model.Uts46 Proofs.Idna_Known Proofs.Idna_Hyp Proofs.C09_InstIdna.
From RU Require Import Model.UrlRecord Model.Parser Model.Setters Model.WF Model.Origin Spec.Whatwg Spec.WhatwgHostParse
  Proofs.C02_Reach Proofs.C02_AuthParts Proofs.C02_Auth Proofs.C02_AuthMain
  Proofs.C05_Enc Proofs.C05_Parser Proofs.C05_Setters Proofs.C05_History Proofs.C05_Sharp Proofs.C06_Host Proofs.C06_Main
  Proofs.C16_Origin Proofs.C16_RT6Model Proofs.C09_Inst Proofs.C09_InstSpec Proofs.Inst_Host.
From RU Require Import Base.Prelude Base.Utf8 Model.AsciiSet Gen.Tables Model.PercentEncoding Model.HostT Model.Host
  Spec.WhatwgHost Proofs.C09_V6 Proofs.C09_V6rt Proofs.C09_V6form Proofs.C09_V4 Proofs.C09_Wf Proofs.C09_Host
  Proofs.C09_V4spec Proofs.C09_V6spec Proofs.C09_Reject Proofs.C09_V6sim Proofs.C09_V6total.

(* ---- the regenerated literal sets are the Standard's ---- *)
Theorem C09_tables :
  T_HOST_INVALID_HOST_CHARS = Spec.forbidden_host_code_points
  /\ (forall b, b < 256 -> should_encode T_CONTROLS b = ((b <=? 31) || (126 <? b)))
  /\ (forall c, c < 128 -> memb c T_HOST_IDNA_DENIED = (Spec.forbidden_domain_code_point c || is_upper c)).
Proof. exact (conj invalid_host_is_spec (conj controls_spec denied_spec)). Qed.
Check C09_tables :
  T_HOST_INVALID_HOST_CHARS = Spec.forbidden_host_code_points
  /\ (forall b, b < 256 -> should_encode T_CONTROLS b = ((b <=? 31) || (126 <? b)))
  /\ (forall c, c < 128 -> memb c T_HOST_IDNA_DENIED = (Spec.forbidden_domain_code_point c || is_upper c)).
Print Assumptions C09_tables.

(* ---- IPv4: every valid spelling has its positional value ----
   ps: 1-4 parts, each (radix, digit string) with the digits valid for the radix (decimal without
   superfluous leading zero, "0"+octal digits, "0x"/"0X"+hex digits, possibly none); in_range: all but
   the last <= 255, the last < 256^(5-n); optional trailing dot. *)
Theorem C09_ipv4_value : forall ps dot, Forall part_ok ps -> in_range (map pvalue ps) ->
  parse_ipv4addr (spell_addr ps dot) = XOk (positional (map pvalue ps)).
Proof. exact parse_ipv4addr_value. Qed.
Check C09_ipv4_value : forall ps dot, Forall part_ok ps -> in_range (map pvalue ps) ->
  parse_ipv4addr (spell_addr ps dot) = XOk (positional (map pvalue ps)).
Print Assumptions C09_ipv4_value.

(* ---- IPv6: parse after write is the identity on all 2^128 addresses ---- *)
Theorem C09_ipv6_rt : forall a, length a = 8%nat -> Forall (fun x => x < 65536) a ->
  parse_ipv6addr (write_ipv6 a) = XOk a.
Proof. exact parse_write_ipv6. Qed.
Check C09_ipv6_rt : forall a, length a = 8%nat -> Forall (fun x => x < 65536) a ->
  parse_ipv6addr (write_ipv6 a) = XOk a.
Print Assumptions C09_ipv6_rt.

(* ---- IPv6 output form: the layout around (cs, ce), which is exactly the first longest run of two
   or more zero pieces (or nothing), every piece in lower-case hex without leading zeros ---- *)
Theorem C09_ipv6_form : forall a, length a = 8%nat ->
  (let '(cs, ce) := longest_zero_sequence a in
   write_ipv6 a = v6_layout a cs ce /\ first_longest_run a cs ce)
  /\ (forall v, v < 65536 ->
        Forall (fun c => is_lower_hex c = true) (hex4 v) /\ (1 <= length (hex4 v) <= 4)%nat
        /\ hex_fold (hex4 v) 0 = Some v /\ no_leading_zero v (hex4 v) = true).
Proof.
  intros a H. split; [|exact hex4_form].
  pose proof (write_ipv6_layout a H) as L. pose proof (lzs_first_longest a H) as F.
  destruct (longest_zero_sequence a). exact (conj L F).
Qed.
Check C09_ipv6_form : forall a, length a = 8%nat ->
  (let '(cs, ce) := longest_zero_sequence a in
   write_ipv6 a = v6_layout a cs ce /\ first_longest_run a cs ce)
  /\ (forall v, v < 65536 ->
        Forall (fun c => is_lower_hex c = true) (hex4 v) /\ (1 <= length (hex4 v) <= 4)%nat
        /\ hex_fold (hex4 v) 0 = Some v /\ no_leading_zero v (hex4 v) = true).
Print Assumptions C09_ipv6_form.

(* the same, cross-checked by computation over all 256 zero patterns *)
Theorem C09_ipv6_form_patterns :
  all_below 256 (fun k => flb_lzs (pat k)) = true /\ all_below 256 (fun k => lzs_shape_b (pat k)) = true.
Proof. exact (conj flb_sweep lzs_shape_sweep). Qed.
Print Assumptions C09_ipv6_form_patterns.

(* ---- parser results are well formed: eight u16 pieces, a u32 ---- *)
Theorem C09_wf : (forall s a, parse_ipv6addr s = XOk a -> length a = 8%nat /\ Forall (fun x => x < 65536) a)
  /\ (forall s a, parse_ipv4addr s = XOk a -> a < 4294967296).
Proof. exact (conj parse_ipv6addr_wf parse_ipv4addr_bound). Qed.
Check C09_wf : (forall s a, parse_ipv6addr s = XOk a -> length a = 8%nat /\ Forall (fun x => x < 65536) a)
  /\ (forall s a, parse_ipv4addr s = XOk a -> a < 4294967296).
Print Assumptions C09_wf.

(* ---- Display then parse returns the same Host ----
   IPv6 hosts: unconditionally, for both parsers.  Opaque hosts: unconditionally.  Hosts returned by
   Host::parse (domains, IPv4): relative to IdnaOK idna (the oracle's outputs are ASCII outside the deny
   list host.rs passes, fixed points of the oracle, and dotted-decimal text is mapped to itself). *)
Theorem C09_display_rt :
  (forall idna a, length a = 8%nat /\ Forall (fun x => x < 65536) a ->
     host_parse idna (host_display (HIpv6 a)) = Ok (HIpv6 a)
     /\ host_parse_opaque (host_display (HIpv6 a)) = Ok (HIpv6 a))
  /\ (forall input h, usv_list input -> host_parse_opaque input = Ok h ->
        host_parse_opaque (host_display h) = Ok h)
  /\ (forall idna, IdnaOK idna -> forall input h, host_parse idna input = Ok h ->
        host_parse idna (host_display h) = Ok h).
Proof.
  split; [|split].
  - intros idna a Hw. destruct (ipv6_display_rt idna a Hw) as [H1 H2].
    exact (conj (x_ok_host_parse _ _ _ H1) (x_ok_host_parse_opaque _ _ H2)).
  - intros input h Hu H.
    exact (x_ok_host_parse_opaque _ _ (opaque_display_rt input h Hu (host_parse_opaque_ok_x _ _ H))).
  - intros idna OK input h H.
    exact (x_ok_host_parse _ _ _ (special_display_rt idna OK input h (host_parse_ok_x _ _ _ H))).
Qed.
Check C09_display_rt :
  (forall idna a, length a = 8%nat /\ Forall (fun x => x < 65536) a ->
     host_parse idna (host_display (HIpv6 a)) = Ok (HIpv6 a)
     /\ host_parse_opaque (host_display (HIpv6 a)) = Ok (HIpv6 a))
  /\ (forall input h, usv_list input -> host_parse_opaque input = Ok h ->
        host_parse_opaque (host_display h) = Ok h)
  /\ (forall idna, IdnaOK idna -> forall input h, host_parse idna input = Ok h ->
        host_parse idna (host_display h) = Ok h).
Print Assumptions C09_display_rt.

(* IPv4 text written by Display parses back without going through the oracle *)
Theorem C09_ipv4_display : forall a, a < 4294967296 ->
  parse_ipv4addr (ipv4_display a) = XOk a /\ ends_in_a_number (ipv4_display a) = true.
Proof. exact (fun a H => conj (parse_ipv4_display a H) (proj2 (proj2 (ipv4_display_digits a H)))). Qed.
Check C09_ipv4_display : forall a, a < 4294967296 ->
  parse_ipv4addr (ipv4_display a) = XOk a /\ ends_in_a_number (ipv4_display a) = true.
Print Assumptions C09_ipv4_display.

(* ---- domains: what Host::parse returns as a domain is what the oracle returned for the
   percent-decoded bytes, non-empty, not ending in a number; relative to IdnaOK it is lower-case ASCII
   without forbidden domain code points (at this revision host.rs has no check of its own after
   IDNA: the deny list is an argument of the idna call) ---- *)
Theorem C09_domain : forall idna input d, host_parse idna input = Ok (HDomain d) ->
  (idna (decode (utf8_encode input)) = Some d /\ d <> [] /\ ends_in_a_number d = false)
  /\ (IdnaOK idna ->
      Forall (fun c => c < 128 /\ is_upper c = false /\ Spec.forbidden_domain_code_point c = false) d).
Proof.
  intros idna input d H. pose proof (host_parse_ok_x _ _ _ H) as Hx.
  exact (conj (parse_domain idna input d Hx) (fun OK => domain_form idna OK input d Hx)).
Qed.
Check C09_domain : forall idna input d, host_parse idna input = Ok (HDomain d) ->
  (idna (decode (utf8_encode input)) = Some d /\ d <> [] /\ ends_in_a_number d = false)
  /\ (IdnaOK idna ->
      Forall (fun c => c < 128 /\ is_upper c = false /\ Spec.forbidden_domain_code_point c = false) d).
Print Assumptions C09_domain.

(* ---- every host that ends in a number is the address the Standard's IPv4 parser computes, or is
   rejected (never a domain) ---- *)
Theorem C09_ipv4_reject : forall idna input dom, starts_with 91 input = false ->
  idna (decode (utf8_encode input)) = Some dom -> ends_in_a_number dom = true ->
  host_parse idna input =
  match Spec.ipv4_parse dom with Some a => Ok (HIpv4 a) | None => Err InvalidIpv4Address end.
Proof. exact number_host_spec. Qed.
Check C09_ipv4_reject : forall idna input dom, starts_with 91 input = false ->
  idna (decode (utf8_encode input)) = Some dom -> ends_in_a_number dom = true ->
  host_parse idna input =
  match Spec.ipv4_parse dom with Some a => Ok (HIpv4 a) | None => Err InvalidIpv4Address end.
Print Assumptions C09_ipv4_reject.

(* ---- the IPv4 side of the model is the Standard's, on all inputs (parse_ipv4addr "" panics in the
   Rust - numbers.pop().expect - and is never called with it) ---- *)
Theorem C09_ipv4_spec :
  (forall s, ends_in_a_number s = Spec.ends_in_a_number s)
  /\ (forall s, s <> [] -> parse_ipv4addr s = match Spec.ipv4_parse s with Some a => XOk a | None => XErr InvalidIpv4Address end)
  /\ parse_ipv4addr [] = XPanic 314.
Proof. exact (conj ends_in_a_number_spec (conj parse_ipv4addr_spec parse_ipv4addr_empty)). Qed.
Check C09_ipv4_spec :
  (forall s, ends_in_a_number s = Spec.ends_in_a_number s)
  /\ (forall s, s <> [] -> parse_ipv4addr s = match Spec.ipv4_parse s with Some a => XOk a | None => XErr InvalidIpv4Address end)
  /\ parse_ipv4addr [] = XPanic 314.
Print Assumptions C09_ipv4_spec.

(* ---- IPv6 against the Standard.  Full statement: serializer and parser equal the Standard's on all
   inputs.  Proved: the serializer on all addresses; the parser inverts the Standard's serializer; parser
   equality on all strings of length <= 5 over {1 f F : . 2 5 g} (by computation). ---- *)
Definition C09_ipv6_spec_statement : Prop :=
  (forall a, length a = 8%nat /\ Forall (fun x => x < 65536) a -> write_ipv6 a = Spec.ipv6_serialize a)
  /\ (forall s, usv_list s -> parse_ipv6addr (utf8_encode s) =
                match Spec.ipv6_parse s with Some a => XOk a | None => XErr InvalidIpv6Address end).
Theorem C09_ipv6_spec_partial :
  (forall a, length a = 8%nat /\ Forall (fun x => x < 65536) a -> write_ipv6 a = Spec.ipv6_serialize a)
  /\ (forall a, length a = 8%nat /\ Forall (fun x => x < 65536) a -> parse_ipv6addr (Spec.ipv6_serialize a) = XOk a)
  /\ (forall s, In s (all_strings [49; 102; 70; 58; 46; 50; 53; 103] 5) ->
        parse_ipv6addr s = match Spec.ipv6_parse s with Some a => XOk a | None => XErr InvalidIpv6Address end).
Proof. exact (conj write_ipv6_spec (conj parse_spec_serialize ipv6_parse_spec_bounded)). Qed.
Check C09_ipv6_spec_partial :
  (forall a, length a = 8%nat /\ Forall (fun x => x < 65536) a -> write_ipv6 a = Spec.ipv6_serialize a)
  /\ (forall a, length a = 8%nat /\ Forall (fun x => x < 65536) a -> parse_ipv6addr (Spec.ipv6_serialize a) = XOk a)
  /\ (forall s, In s (all_strings [49; 102; 70; 58; 46; 50; 53; 103] 5) ->
        parse_ipv6addr s = match Spec.ipv6_parse s with Some a => XOk a | None => XErr InvalidIpv6Address end).
Print Assumptions C09_ipv6_spec_partial.

(* the full statement (Proofs/C09_V6sim.v: simulation of the Standard's pointer machine by the model's
   index/fuel loops, on the bytes of the string) *)
Theorem C09_ipv6_spec : C09_ipv6_spec_statement.
Proof. exact (conj write_ipv6_spec ipv6_parse_spec_full). Qed.
Check C09_ipv6_spec :
  (forall a, length a = 8%nat /\ Forall (fun x => x < 65536) a -> write_ipv6 a = Spec.ipv6_serialize a)
  /\ (forall s, usv_list s -> parse_ipv6addr (utf8_encode s) =
                match Spec.ipv6_parse s with Some a => XOk a | None => XErr InvalidIpv6Address end).
Print Assumptions C09_ipv6_spec.

(* stronger than the second conjunct: no hypothesis on the code points; and the function on arbitrary
   byte lists (as a &[u8] function: a byte above 127 fails exactly like a code point above 127) *)
Theorem C09_ipv6_parse_all :
  (forall s, parse_ipv6addr (utf8_encode s) =
             match Spec.ipv6_parse s with Some a => XOk a | None => XErr InvalidIpv6Address end)
  /\ (forall l, parse_ipv6addr l =
                match Spec.ipv6_parse l with Some a => XOk a | None => XErr InvalidIpv6Address end).
Proof. exact (conj ipv6_parse_spec_str ipv6_parse_spec_bytes). Qed.
Check C09_ipv6_parse_all :
  (forall s, parse_ipv6addr (utf8_encode s) =
             match Spec.ipv6_parse s with Some a => XOk a | None => XErr InvalidIpv6Address end)
  /\ (forall l, parse_ipv6addr l =
                match Spec.ipv6_parse l with Some a => XOk a | None => XErr InvalidIpv6Address end).
Print Assumptions C09_ipv6_parse_all.

(* ---- '['-led inputs: both entry points return what the Standard's host parser returns for an IPv6
   literal - failure unless the input ends in ']', else the Standard's IPv6 parser on the text between
   the brackets (the IDNA oracle is not asked) ---- *)
Theorem C09_ipv6_literal : forall idna input, starts_with 91 input = true ->
  host_parse idna input = literal_result input /\ host_parse_opaque input = literal_result input.
Proof. exact literal_spec. Qed.
Check C09_ipv6_literal : forall idna input, starts_with 91 input = true ->
  host_parse idna input =
    (if ends_with 93 input then
       match Spec.ipv6_parse (removelast (tl input)) with Some a => Ok (HIpv6 a) | None => Err InvalidIpv6Address end
     else Err InvalidIpv6Address)
  /\ host_parse_opaque input =
    (if ends_with 93 input then
       match Spec.ipv6_parse (removelast (tl input)) with Some a => Ok (HIpv6 a) | None => Err InvalidIpv6Address end
     else Err InvalidIpv6Address).
Print Assumptions C09_ipv6_literal.

(* ---- no panic, no fuel exhaustion.  Full statement: for every input of both entry points.  Proved:
   for every input that is not a '['-led literal (the IPv6 parser's index and fuel bounds are covered
   only by the correspondence run, where the model reports PANIC / FUEL as outcomes). ---- *)
Definition C09_total_statement : Prop := total_statement.
Theorem C09_total_partial :
  (forall idna input, starts_with 91 input = false -> no_panic (host_parse_x idna input))
  /\ (forall input, starts_with 91 input = false -> no_panic (host_parse_opaque_x input)).
Proof. exact total_partial. Qed.
Check C09_total_partial :
  (forall idna input, starts_with 91 input = false -> no_panic (host_parse_x idna input))
  /\ (forall input, starts_with 91 input = false -> no_panic (host_parse_opaque_x input)).
Print Assumptions C09_total_partial.

(* the full statement: every input of both entry points, '['-led literals included (every checked index,
   the u16 overflow check of the embedded IPv4 part, the usize underflow checks of the swap loop and the
   fuel of every loop of parse_ipv6addr: Proofs/C09_V6sim.v, C09_V6total.v) *)
Theorem C09_total : C09_total_statement.
Proof. exact total_full. Qed.
Check C09_total :
  (forall idna input, no_panic (host_parse_x idna input)) /\ (forall input, no_panic (host_parse_opaque_x input)).
Print Assumptions C09_total.

(* ---- opaque hosts: reject exactly the forbidden host code points, C0-control-percent-encode the rest ---- *)
Theorem C09_opaque : forall input, usv_list input -> starts_with 91 input = false ->
  host_parse_opaque input =
  if existsb (fun c => memb c Spec.forbidden_host_code_points) input then Err InvalidDomainCharacter
  else Ok (HDomain (c0_encode (utf8_encode input))).
Proof. exact parse_opaque_spec. Qed.
Check C09_opaque : forall input, usv_list input -> starts_with 91 input = false ->
  host_parse_opaque input =
  if existsb (fun c => memb c Spec.forbidden_host_code_points) input then Err InvalidDomainCharacter
  else Ok (HDomain (c0_encode (utf8_encode input))).
Print Assumptions C09_opaque.

(* non-vacuity: concrete instances *)
Example C09_examples :
  parse_ipv4addr [48; 120; 49; 48; 46; 49] = XOk 268435457                       (* "0x10.1" *)
  /\ write_ipv6 [1; 0; 0; 2; 0; 0; 0; 3] = [49; 58; 48; 58; 48; 58; 50; 58; 58; 51] (* "1:0:0:2::3" *)
  /\ longest_zero_sequence [1; 0; 0; 2; 0; 0; 0; 3] = (4%Z, 7%Z)
  /\ host_parse_opaque [97; 32] = Err InvalidDomainCharacter
  /\ host_parse (fun x => Some x) [49; 46; 50; 46; 51] = Ok (HIpv4 16908291).
Proof. vm_compute. repeat split. Qed.

(* ====================================================================================== *)
(* The host model against the hypothesis records of the URL-level theorems                 *)
(* ====================================================================================== *)
(* C02, C05, C06 and C16 are proved for ABSTRACT host functions hp / hpo / hd under hypothesis records.
   For the host model (host_parse idna, host_parse_opaque, host_display) the records hold relative to
   IdnaOK idna alone:
   HostRT (C02_AuthParts.v) - a non-empty host returned by either parser is displayed as a host text (ASCII,
     non-empty, the authority scan stops exactly at its end, no '@') that the same parser reads back as the
     same host; the empty host is displayed as nothing; parse_opaque "" is the empty host;
   host_above - every displayed host is above U+0020;
   HostOK of C05 (C05_Parser.v) - every host a parser can return is displayed inside 0x21..0x7E;
   the IP clause of C05 (IpOK) and the text-matches-kind clause of C06 (host_disp_ok) for every Ipv4Addr /
     Ipv6Addr VALUE (u32 / eight u16). *)
Theorem C09_host_model_ok : forall idna, IdnaOK idna ->
  HostRT (host_parse idna) host_parse_opaque host_display
  /\ host_above (host_parse idna) host_parse_opaque host_display
  /\ C05_Parser.HostOK (host_parse idna) host_parse_opaque host_display
  /\ (forall h, ip_value h -> Forall ok_byte (host_display h) /\ host_disp_ok host_display h)
  /\ (forall s h, host_parse idna s = Ok h \/ host_parse_opaque s = Ok h -> host_disp_ok host_display h).
Proof. exact host_model_ok. Qed.
Check C09_host_model_ok : forall idna, IdnaOK idna ->
  HostRT (host_parse idna) host_parse_opaque host_display
  /\ host_above (host_parse idna) host_parse_opaque host_display
  /\ C05_Parser.HostOK (host_parse idna) host_parse_opaque host_display
  /\ (forall h, ip_value h -> Forall ok_byte (host_display h) /\ host_disp_ok host_display h)
  /\ (forall s h, host_parse idna s = Ok h \/ host_parse_opaque s = Ok h -> host_disp_ok host_display h).
Print Assumptions C09_host_model_ok.

(* HostOK of C02_Reach.v clause by clause: everything holds except `hp [] = Ok (HDomain [])` and the
   Host::parse_opaque half of the set_ip_host clause for IPv4 values (refuted below) *)
Theorem C09_host_model_HostOK_C02 : forall idna, IdnaOK idna ->
  (forall s h, host_parse idna s = Ok h -> h <> HDomain [] ->
     C02_Reach.host_text_ok (host_display h) /\ host_parse idna (host_display h) = Ok h)
  /\ (forall s h, host_parse_opaque s = Ok h -> h <> HDomain [] ->
     C02_Reach.host_text_ok (host_display h) /\ host_parse_opaque (host_display h) = Ok h)
  /\ (forall h, op_args_ok (C02_Reach.OSetIpHost h) ->
     C02_Reach.host_text_ok (host_display h) /\ host_parse idna (host_display h) = Ok h
     /\ (forall ps, h = HIpv6 ps -> host_parse_opaque (host_display h) = Ok h))
  /\ host_display (HDomain []) = [] /\ host_parse_opaque [] = Ok (HDomain []).
Proof. exact model_HostOK_C02_true. Qed.
Print Assumptions C09_host_model_HostOK_C02.

(* ... and what is FALSE of the host model:
   (a) HostOK of C02_Reach.v as a whole - Host::parse "" is an error for every IDNA function, never the empty
       host; so the theorems of Properties/C02.v stated under HostOK cannot be instantiated, their HostRT forms
       (C02_AuthMain.v) can;
   (b) its set_ip_host clause for IPv4 under Host::parse_opaque - the dotted-decimal text of an Ipv4 value is
       read back as a Domain: Url::parse("a://x/") then set_ip_host(127.0.0.1) has host() = Host::Ipv4, while
       Url::parse of its serialization a://127.0.0.1/ has host() = Host::Domain("127.0.0.1");
   (c) IpOK host_display of C05, which quantifies over values of the model type that are no Ipv4Addr;
   (d) `forall h, host_disp_ok host_display h`, the gate of C05_components_step for set_host(Some _): Display is
       the identity on domains, also on texts no parser returns (":"). *)
Theorem C09_host_records_refuted :
  (forall idna, ~ C02_Reach.HostOK (host_parse idna) host_parse_opaque host_display)
  /\ (forall idna, host_parse idna [] <> Ok (HDomain []))
  /\ (forall a, a < 4294967296 ->
        host_parse_opaque (host_display (HIpv4 a)) = Ok (HDomain (ipv4_display a))
        /\ host_parse_opaque (host_display (HIpv4 a)) <> Ok (HIpv4 a))
  /\ ~ IpOK host_display
  /\ ~ (forall h, host_disp_ok host_display h).
Proof.
  exact (conj model_HostOK_C02_refuted (conj host_parse_nil_refuted (conj opaque_ipv4_refuted
           (conj model_IpOK_refuted host_disp_ok_all_refuted)))).
Qed.
Check C09_host_records_refuted :
  (forall idna, ~ C02_Reach.HostOK (host_parse idna) host_parse_opaque host_display)
  /\ (forall idna, host_parse idna [] <> Ok (HDomain []))
  /\ (forall a, a < 4294967296 ->
        host_parse_opaque (host_display (HIpv4 a)) = Ok (HDomain (ipv4_display a))
        /\ host_parse_opaque (host_display (HIpv4 a)) <> Ok (HIpv4 a))
  /\ ~ IpOK host_display
  /\ ~ (forall h, host_disp_ok host_display h).
Print Assumptions C09_host_records_refuted.

(* the opaque half of C09_display_rt without the scalar-value hypothesis: EVERY list of numbers *)
Theorem C09_opaque_display_rt_any : forall input h,
  host_parse_opaque input = Ok h -> host_parse_opaque (host_display h) = Ok h.
Proof.
  intros input h H.
  exact (x_ok_host_parse_opaque _ _ (opaque_display_rt_any input h (host_parse_opaque_ok_x _ _ H))).
Qed.
Check C09_opaque_display_rt_any : forall input h,
  host_parse_opaque input = Ok h -> host_parse_opaque (host_display h) = Ok h.
Print Assumptions C09_opaque_display_rt_any.

(* ---- what IdnaOK amounts to for the IDNA model ----
   idna_of A cfg = the function host.rs calls (domain_to_ascii_cow(bytes, AsciiDenyList::URL) of Model/Uts46.v,
   on byte lists).  IdnaOK (idna_of A cfg) follows from three facts about ToASCII, two of them statements of
   C10: C10_ascii_statement (ASCII, lower case, outside the deny list - the deny list regenerated from host.rs is
   the URL list of uts46.rs plus upper case), idempotence at the URL options (C10_idem_statement claims it
   outside Known_C12), and: dotted-decimal text is mapped to itself. *)
Theorem C09_idna_premise : forall A cfg,
  C10_ascii_statement A cfg -> idem_url A cfg -> v4_fixed A cfg -> IdnaOK (idna_of A cfg).
Proof. exact IdnaOK_of_model. Qed.
Check C09_idna_premise : forall A cfg,
  C10_ascii_statement A cfg ->
  (forall d b r, bytes d -> to_ascii A cfg d DENY_URL HAllow DIgnore = U32_c13.Ok (b, r) ->
     exists b', to_ascii A cfg r DENY_URL HAllow DIgnore = U32_c13.Ok (b', r)) ->
  (forall a, a < 4294967296 ->
     exists b, to_ascii A cfg (ipv4_display a) DENY_URL HAllow DIgnore = U32_c13.Ok (b, ipv4_display a)) ->
  IdnaOK (idna_of A cfg).
Print Assumptions C09_idna_premise.

Example C09_idna_premise_instances :
  idna_of toy true [65; 98; 46; 99] = Some [97; 98; 46; 99]
  /\ idna_of toy true [97; 98; 46; 99] = Some [97; 98; 46; 99]
  /\ idna_of toy true (ipv4_display 16909060) = Some (ipv4_display 16909060)
  /\ idna_of toy true [97; 32; 98] = None
  /\ idna_of toy true [97; 300] = None
  /\ host_parse (idna_of toy true) [65; 98; 46; 99] = Ok (HDomain [97; 98; 46; 99])
  /\ host_parse (idna_of toy true) [48; 120; 49; 46; 50] = Ok (HIpv4 16777218).
Proof. exact idna_of_examples. Qed.

(* ====================================================================================== *)
(* The Standard's host parser and serializer                                                *)
(* ====================================================================================== *)
(* spec_host_parser (Spec/WhatwgHostParse.v: the host parser of the Standard with "domain to ASCII" as a
   function argument) equals the host model on every input, for both values of isOpaque, when both use the
   same function idna and IdnaOK idna holds (only its first clause is used: outputs have no forbidden domain
   code point - the check the Standard makes itself and host.rs delegates to the deny-list argument).
   host_to_spec reads Ok (Domain d) as a domain / an opaque host / the empty host, failure as failure. *)
Theorem C09_spec_host_parser : forall idna input, IdnaOK idna ->
  spec_host_parser idna false input = host_to_spec false (host_parse idna input)
  /\ (usv_list input -> spec_host_parser idna true input = host_to_spec true (host_parse_opaque input)).
Proof. exact spec_host_parser_model. Qed.
Check C09_spec_host_parser : forall idna input, IdnaOK idna ->
  spec_host_parser idna false input = host_to_spec false (host_parse idna input)
  /\ (usv_list input -> spec_host_parser idna true input = host_to_spec true (host_parse_opaque input)).
Print Assumptions C09_spec_host_parser.

(* the premise is needed: an oracle answering "a b" *)
Theorem C09_spec_host_parser_premise :
  let idna := fun _ : list N => Some [97; 32; 98] in
  spec_host_parser idna false [120] = None /\ host_parse idna [120] = Ok (HDomain [97; 32; 98]).
Proof. exact spec_domain_needs_premise. Qed.
Print Assumptions C09_spec_host_parser_premise.

(* the Standard's host serializer = Display for Host, on every host value *)
Theorem C09_spec_host_serializer : forall is_opaque h,
  match h with
  | HIpv4 a => a < 4294967296
  | HIpv6 p => length p = 8%nat /\ Forall (fun x => x < 65536) p
  | HDomain _ => True
  end ->
  spec_host_serializer (spec_of_host is_opaque h) = host_display h.
Proof. exact spec_serializer_model. Qed.
Check C09_spec_host_serializer : forall is_opaque h,
  match h with
  | HIpv4 a => a < 4294967296
  | HIpv6 p => length p = 8%nat /\ Forall (fun x => x < 65536) p
  | HDomain _ => True
  end ->
  spec_host_serializer (spec_of_host is_opaque h) = host_display h.
Print Assumptions C09_spec_host_serializer.

(* ====================================================================================== *)
(* Instantiations: parser model + host model, the only premise about hosts is IdnaOK idna   *)
(* ====================================================================================== *)
(* C02 (union of classes (i)-(iv)): every URL parsed without a base whose scheme is not "file" re-parses from
   its serialization to the same record, is well formed and ASCII *)
Theorem C09_inst_C02_reparse_nonfile : forall dbg idna, IdnaOK idna -> forall input u,
  usv_list input -> nonfile_input input = true ->
  parse_url dbg (host_parse idna) host_parse_opaque host_display None None input = POk u ->
  parse_url dbg (host_parse idna) host_parse_opaque host_display None None (utf8_lossy (ser u)) = POk u
  /\ wf_b u = true /\ ascii (ser u).
Proof. exact reparse_nonfile_model. Qed.
Check C09_inst_C02_reparse_nonfile : forall dbg idna, IdnaOK idna -> forall input u,
  usv_list input -> nonfile_input input = true ->
  parse_url dbg (host_parse idna) host_parse_opaque host_display None None input = POk u ->
  parse_url dbg (host_parse idna) host_parse_opaque host_display None None (utf8_lossy (ser u)) = POk u
  /\ wf_b u = true /\ ascii (ser u).
Print Assumptions C09_inst_C02_reparse_nonfile.

(* C02 class (iii), non-special scheme with authority (Host::parse_opaque), any encoding override *)
Theorem C09_inst_C02_reparse_auth : forall dbg idna, IdnaOK idna -> forall ovr input u,
  usv_list input -> auth_input input = true ->
  parse_url dbg (host_parse idna) host_parse_opaque host_display ovr None input = POk u ->
  parse_url dbg (host_parse idna) host_parse_opaque host_display None None (utf8_lossy (ser u)) = POk u
  /\ wf_b u = true /\ canon_auth (host_parse idna) host_parse_opaque host_display STNotSpecial u.
Proof. exact reparse_auth_model. Qed.
Check C09_inst_C02_reparse_auth : forall dbg idna, IdnaOK idna -> forall ovr input u,
  usv_list input -> auth_input input = true ->
  parse_url dbg (host_parse idna) host_parse_opaque host_display ovr None input = POk u ->
  parse_url dbg (host_parse idna) host_parse_opaque host_display None None (utf8_lossy (ser u)) = POk u
  /\ wf_b u = true /\ canon_auth (host_parse idna) host_parse_opaque host_display STNotSpecial u.
Print Assumptions C09_inst_C02_reparse_auth.

(* C02 class (iv), special non-file scheme (Host::parse) *)
Theorem C09_inst_C02_reparse_special : forall dbg idna, IdnaOK idna -> forall input u,
  usv_list input -> special_input input = true ->
  parse_url dbg (host_parse idna) host_parse_opaque host_display None None input = POk u ->
  parse_url dbg (host_parse idna) host_parse_opaque host_display None None (utf8_lossy (ser u)) = POk u
  /\ wf_b u = true /\ canon_special (host_parse idna) host_parse_opaque host_display u.
Proof. exact reparse_special_model. Qed.
Check C09_inst_C02_reparse_special : forall dbg idna, IdnaOK idna -> forall input u,
  usv_list input -> special_input input = true ->
  parse_url dbg (host_parse idna) host_parse_opaque host_display None None input = POk u ->
  parse_url dbg (host_parse idna) host_parse_opaque host_display None None (utf8_lossy (ser u)) = POk u
  /\ wf_b u = true /\ canon_special (host_parse idna) host_parse_opaque host_display u.
Print Assumptions C09_inst_C02_reparse_special.

(* ... but C02's full statement, read for the linked model, is FALSE: Url::parse("a://x/") then
   set_ip_host(127.0.0.1) - a step outside every Known class of C02_Reach.v - gives a://127.0.0.1/ with host kind
   Ipv4, and its serialization re-parses to the same text and offsets with host kind Domain (Host::parse_opaque
   does not read IPv4; confirmed on the crate: host() differs, the two Urls compare equal).  Fixpoint_of_reparse
   compares records.  A further class is needed: set_ip_host(V4) on a URL whose scheme is not special. *)
Theorem C09_inst_C02_model_refuted : ~ C02_model_statement.
Proof. exact C02_model_refuted. Qed.
Check C09_inst_C02_model_refuted :
  ~ (forall dbg idna, IdnaOK idna -> forall u,
       C02_Reach.Reachable dbg (host_parse idna) host_parse_opaque host_display u ->
       parse_url dbg (host_parse idna) host_parse_opaque host_display None None (utf8_lossy (ser u)) = POk u).
Print Assumptions C09_inst_C02_model_refuted.

(* C05, whole parser: any input (no range condition), any base with bytes in 0x20..0x7E, any override *)
Theorem C09_inst_C05_parse : forall dbg idna, IdnaOK idna -> forall ovr base input u,
  match base with Some b => Forall ok_or_space (ser b) | None => True end ->
  parse_url dbg (host_parse idna) host_parse_opaque host_display ovr base input = POk u ->
  Forall ok_or_space (ser u).
Proof. exact parse_alphabet_model. Qed.
Check C09_inst_C05_parse : forall dbg idna, IdnaOK idna -> forall ovr base input u,
  match base with Some b => Forall ok_or_space (ser b) | None => True end ->
  parse_url dbg (host_parse idna) host_parse_opaque host_display ovr base input = POk u ->
  Forall ok_or_space (ser u).
Print Assumptions C09_inst_C05_parse.

(* C05, sharper: U+0020 only in an opaque path *)
Theorem C09_inst_C05_bytes : forall dbg idna, IdnaOK idna -> forall ovr base input u, usv_list input ->
  match base with Some b => sharp b | None => True end ->
  parse_url dbg (host_parse idna) host_parse_opaque host_display ovr base input = POk u ->
  sharp u.
Proof. exact parse_sharp_model. Qed.
Check C09_inst_C05_bytes : forall dbg idna, IdnaOK idna -> forall ovr base input u, usv_list input ->
  match base with Some b => sharp b | None => True end ->
  parse_url dbg (host_parse idna) host_parse_opaque host_display ovr base input = POk u ->
  sharp u.
Print Assumptions C09_inst_C05_bytes.

(* C05, whole histories: ReachableM dbg idna = parse, join (any override) and the 19 mutators with arbitrary
   arguments, the address given to Url::set_ip_host being an Ipv4Addr / Ipv6Addr value (ip_value) *)
Theorem C09_inst_C05_history : forall dbg idna, IdnaOK idna -> forall u,
  ReachableM dbg idna u -> Forall ok_or_space (ser u).
Proof. exact history_alphabet_model. Qed.
Check C09_inst_C05_history : forall dbg idna, IdnaOK idna -> forall u,
  ReachableM dbg idna u -> Forall ok_or_space (ser u).
Print Assumptions C09_inst_C05_history.

(* C06: Url::set_ip_host with an address value keeps the record invariant (outside F-C03-5 / F-C02-4) *)
Theorem C09_inst_C06_set_ip_host_wf : forall dbg idna, IdnaOK idna -> forall u h u' st, wfh u -> ip_value h ->
  (has_authority_b u = true -> hi_of_host h = HI_None -> port u = None) ->
  (has_authority_b u = false -> path_start u = scheme_end u + 1) ->
  set_ip_host dbg host_display u h = Some (u', st) -> wfh u'.
Proof. exact set_ip_host_wf_model. Qed.
Print Assumptions C09_inst_C06_set_ip_host_wf.

(* C16: the ASCII serialization of the tuple origin of ANY parse result parses back to a URL with that origin *)
Theorem C09_inst_C16_rt_parsed : forall dbg idna, IdnaOK idna -> forall input u c o c',
  url_parse dbg (host_parse idna) host_parse_opaque host_display input = POk u ->
  url_origin dbg (host_parse idna) host_parse_opaque host_display c u = OOk o c' -> is_tuple o = true ->
  nlen (ascii_serialization host_display o) < U32_MAX_P ->
  exists w, url_parse dbg (host_parse idna) host_parse_opaque host_display (ascii_serialization host_display o) = POk w
            /\ url_origin dbg (host_parse idna) host_parse_opaque host_display c' w = OOk o c'.
Proof. exact origin_rt_model. Qed.
Check C09_inst_C16_rt_parsed : forall dbg idna, IdnaOK idna -> forall input u c o c',
  url_parse dbg (host_parse idna) host_parse_opaque host_display input = POk u ->
  url_origin dbg (host_parse idna) host_parse_opaque host_display c u = OOk o c' -> is_tuple o = true ->
  nlen (ascii_serialization host_display o) < U32_MAX_P ->
  exists w, url_parse dbg (host_parse idna) host_parse_opaque host_display (ascii_serialization host_display o) = POk w
            /\ url_origin dbg (host_parse idna) host_parse_opaque host_display c' w = OOk o c'.
Print Assumptions C09_inst_C16_rt_parsed.

(* non-vacuity: IdnaOK has an instance (idna_clean: the identity on ASCII text outside the deny list); with it
   the linked model parses a://u@[::1]:81/x (opaque parser, IPv6 literal) and ws://x.y:80/p (default port
   elided), reads http://1.2.3/ as the address 1.2.0.3 and refuses http://EXAMPLE.com/ (idna_clean does not
   lower-case); the three inputs are in the classes of the theorems above *)
Example C09_inst_examples :
  IdnaOK idna_clean
  /\ ex_ser (B "a://u@[::1]:81/x"%string) = Some (B "a://u@[::1]:81/x"%string)
  /\ ex_ser (B "http://EXAMPLE.com/"%string) = None
  /\ ex_ser (B "http://1.2.3/"%string) = Some (B "http://1.2.0.3/"%string)
  /\ ex_ser (B "ws://x.y:80/p"%string) = Some (B "ws://x.y/p"%string)
  /\ nonfile_input (B "http://1.2.3/"%string) = true /\ special_input (B "ws://x.y:80/p"%string) = true
  /\ auth_input (B "a://u@[::1]:81/x"%string) = true.
Proof. exact model_examples. Qed.

(* ====================================================================================== *)
(* C03's hypothesis HostWf for the host model, and the theorems stated under it             *)
(* ====================================================================================== *)
From RU Require Import Proofs.C04_ParseTotal Proofs.C03_ReachParts Proofs.C05_Comp Proofs.C05_CompSteps Proofs.C05_CompReach
  Proofs.C05_CompSteps3 Proofs.C09_InstWf.

(* HostWf (Proofs/C03_ReachParts.v): a host other than the empty one that Host::parse / Host::parse_opaque returns is
   displayed as a non-empty text that does not start with ':' or '@' and does not end with '/'; the empty host as
   nothing.  IpDisp (Proofs/C05_CompSteps3.v): an Ipv4Addr / Ipv6Addr value is displayed as a non-empty text that does
   not start with ':' or '@'. *)
Theorem C09_inst_HostWf : forall idna, IdnaOK idna ->
  HostWf (host_parse idna) host_parse_opaque host_display /\ IpDisp host_display.
Proof. intros idna OK. split; [exact (model_HostWf idna OK) | exact (model_IpDisp idna OK)]. Qed.
Check C09_inst_HostWf : forall idna, IdnaOK idna ->
  HostWf (host_parse idna) host_parse_opaque host_display /\ IpDisp host_display.
Print Assumptions C09_inst_HostWf.

(* C03: every record the parser (linked with the host model) returns is well formed - every scheme, with or without a
   base, any input; the base satisfies base_ok and host_text_ok, which the result satisfies again
   (C09_inst_C05_parse_base_ok) *)
Theorem C09_inst_C03_parse_reachability : forall dbg idna, IdnaOK idna -> forall ovr base input u,
  match base with Some b => base_ok b = true /\ C06_Suffix.host_text_ok b | None => True end ->
  parse_url dbg (host_parse idna) host_parse_opaque host_display ovr base input = POk u ->
  wf_b u = true /\ C06_Suffix.host_text_ok u.
Proof. exact parse_wf_model. Qed.
Check C09_inst_C03_parse_reachability : forall dbg idna, IdnaOK idna -> forall ovr base input u,
  match base with Some b => base_ok b = true /\ C06_Suffix.host_text_ok b | None => True end ->
  parse_url dbg (host_parse idna) host_parse_opaque host_display ovr base input = POk u ->
  wf_b u = true /\ C06_Suffix.host_text_ok u.
Print Assumptions C09_inst_C03_parse_reachability.

Theorem C09_inst_C05_parse_base_ok : forall dbg idna, IdnaOK idna -> forall ovr base input u,
  match base with Some b => base_ok b = true /\ C06_Suffix.host_text_ok b | None => True end ->
  parse_url dbg (host_parse idna) host_parse_opaque host_display ovr base input = POk u ->
  base_ok u = true /\ C06_Suffix.host_text_ok u.
Proof. exact parse_base_ok_model. Qed.
Check C09_inst_C05_parse_base_ok : forall dbg idna, IdnaOK idna -> forall ovr base input u,
  match base with Some b => base_ok b = true /\ C06_Suffix.host_text_ok b | None => True end ->
  parse_url dbg (host_parse idna) host_parse_opaque host_display ovr base input = POk u ->
  base_ok u = true /\ C06_Suffix.host_text_ok u.
Print Assumptions C09_inst_C05_parse_base_ok.

(* C05: the component invariant and the five component clauses of the property text for EVERY parse result *)
Theorem C09_inst_C05_components_parse : forall dbg idna, IdnaOK idna -> forall dbg' ovr base input u,
  match base with Some b => CInv dbg' b /\ base_ok b = true | None => True end ->
  parse_url dbg (host_parse idna) host_parse_opaque host_display ovr base input = POk u ->
  CInv dbg' u /\ components_clean dbg' u.
Proof. exact parse_components_model. Qed.
Check C09_inst_C05_components_parse : forall dbg idna, IdnaOK idna -> forall dbg' ovr base input u,
  match base with Some b => CInv dbg' b /\ base_ok b = true | None => True end ->
  parse_url dbg (host_parse idna) host_parse_opaque host_display ovr base input = POk u ->
  CInv dbg' u /\ components_clean dbg' u.
Print Assumptions C09_inst_C05_components_parse.

(* C05: along parse, join and gated steps of all 19 mutators (CReach: step_gate2; CReach3: step_gate3, which covers
   quirks set_host with a port part and takes an address VALUE for set_ip_host) *)
Theorem C09_inst_C05_components_reach : forall dbg idna, IdnaOK idna -> forall u,
  CReach dbg (host_parse idna) host_parse_opaque host_display u -> wfh u /\ components_clean dbg u.
Proof. exact reach_components_model. Qed.
Check C09_inst_C05_components_reach : forall dbg idna, IdnaOK idna -> forall u,
  CReach dbg (host_parse idna) host_parse_opaque host_display u -> wfh u /\ components_clean dbg u.
Print Assumptions C09_inst_C05_components_reach.

Theorem C09_inst_C05_components_reach3 : forall dbg idna, IdnaOK idna -> forall u,
  CReach3 dbg (host_parse idna) host_parse_opaque host_display u -> wfh u /\ components_clean dbg u.
Proof. exact reach3_components_model. Qed.
Check C09_inst_C05_components_reach3 : forall dbg idna, IdnaOK idna -> forall u,
  CReach3 dbg (host_parse idna) host_parse_opaque host_display u -> wfh u /\ components_clean dbg u.
Print Assumptions C09_inst_C05_components_reach3.

(* C05, first sentence of the property text for the linked model: only 0x21..0x7E, U+0020 solely inside an opaque
   path, for every record of CReach3 whose stored host text has no space *)
Theorem C09_inst_C05_alphabet_reach : forall dbg idna, IdnaOK idna -> forall u,
  CReach3 dbg (host_parse idna) host_parse_opaque host_display u ->
  (has_host u = true -> ~ In 32 (C03_WF.piece u (host_start u) (host_end u))) -> C05_Alphabet.alphabet_ok u.
Proof. exact reach3_alphabet_model. Qed.
Check C09_inst_C05_alphabet_reach : forall dbg idna, IdnaOK idna -> forall u,
  CReach3 dbg (host_parse idna) host_parse_opaque host_display u ->
  (has_host u = true -> ~ In 32 (C03_WF.piece u (host_start u) (host_end u))) -> C05_Alphabet.alphabet_ok u.
Print Assumptions C09_inst_C05_alphabet_reach.

(* ===== F-C10-1 at host level (task c09long) ===== *)
(* Finding F-C10-1 (Properties/C10.v: C10_idem_refuted, C10_long_witness, C10_long_rejected): ToASCII accepts a label of
   at most 1000 scalar values whose Punycode form has more than 2000 characters after xn--, and rejects that output.
   Host::parse hands every non-bracketed input to ToASCII, so the clause idna_fix of IdnaOK (every oracle output is a
   fixed point of the oracle, on ALL byte inputs) is FALSE of the real idna crate: every theorem above stated relative
   to `IdnaOK idna` (the domain / IPv4 clause of C09_display_rt, C09_host_model_ok, C09_host_model_HostOK_C02,
   C09_spec_host_parser, all C09_inst_*; C02_HostOK2_model, C02_reach_partial_model, C16_rt_parsed_model) says nothing
   about the real crate.  They remain true, and are used below at the capped oracle.
   Lemmas: Proofs/C09_Long.v, C09_LongRun.v, C09_LongHist.v, C09_LongOrigin.v, C09_LongWit.v. *)
From RU Require Import Proofs.C09_Long Proofs.C09_LongRun Proofs.C09_LongHist Proofs.C09_LongOrigin Proofs.C09_LongWit.
From RU Require Proofs.Idna_C10b_Long Proofs.Idna_C10b_Stmt Proofs.C02_ReachPartial.

(* ---- the repaired hypothesis ----
   known_c10_long d = Known_C10_long d (some dot-separated label of d starts with xn--, any case, and has more than 2000
   characters after it).  IdnaOK2 idna = IdnaOK idna with the fixed-point clause only for outputs outside the class.
   cap idna = the oracle that answers None where idna answers inside the class.  IdnaOK is the stronger record; under
   IdnaOK2 the capped oracle satisfies IdnaOK, so every IdnaOK-relative theorem holds for the host model run with it. *)
Theorem C09_IdnaOK2_cap : forall idna, (IdnaOK idna -> IdnaOK2 idna) /\ (IdnaOK2 idna -> IdnaOK (cap idna)).
Proof. exact (fun idna => conj (IdnaOK_IdnaOK2 idna) (IdnaOK2_cap idna)). Qed.
Check C09_IdnaOK2_cap : forall idna, (IdnaOK idna -> IdnaOK2 idna) /\ (IdnaOK2 idna -> IdnaOK (cap idna)).
Print Assumptions C09_IdnaOK2_cap.

Check (fun idna => idna2_fix idna) : forall idna, IdnaOK2 idna ->
  forall bs d, idna bs = Some d -> known_c10_long d = false -> idna d = Some d.
Check (eq_refl : known_c10_long = Idna_C10b_Long.Known_C10_long).
Check (eq_refl : cap = fun idna bs =>
  match idna bs with Some d => if known_c10_long d then None else Some d | None => None end).

(* ---- agreement, Host::parse ----
   host_in_class idna input = the input is not '['-led and the oracle's answer for its percent-decoded bytes is in the
   class.  Outside: the capped run IS the run.  Inside: the capped run is Err IdnaError.  Every success of the capped run
   is the same success of the run; every success of the run whose display text is outside the class (IPv4 / IPv6
   results always are) is a success of the capped run. *)
Theorem C09_cap_agree : forall idna input,
  (host_in_class idna input = false -> host_parse (cap idna) input = host_parse idna input)
  /\ (host_in_class idna input = true -> host_parse (cap idna) input = Err IdnaError)
  /\ (forall h, host_parse (cap idna) input = Ok h -> host_parse idna input = Ok h)
  /\ (IdnaOK2 idna -> forall h, host_parse idna input = Ok h -> known_c10_long (host_display h) = false ->
      host_parse (cap idna) input = Ok h).
Proof.
  exact (fun idna input => conj (cap_agree idna input) (conj (cap_class idna input) (conj (cap_refines idna input)
           (fun OK h => cap_result idna input h OK)))).
Qed.
Check C09_cap_agree : forall idna input,
  (host_in_class idna input = false -> host_parse (cap idna) input = host_parse idna input)
  /\ (host_in_class idna input = true -> host_parse (cap idna) input = Err IdnaError)
  /\ (forall h, host_parse (cap idna) input = Ok h -> host_parse idna input = Ok h)
  /\ (IdnaOK2 idna -> forall h, host_parse idna input = Ok h -> known_c10_long (host_display h) = false ->
      host_parse (cap idna) input = Ok h).
Print Assumptions C09_cap_agree.

(* ---- the domain / IPv4 clause of C09_display_rt and the form clause of C09_domain, for the oracle ITSELF, relative to
   IdnaOK2: Display then parse returns the same Host for every parsed host whose text is outside the class ---- *)
Theorem C09_display_rt2 : forall idna, IdnaOK2 idna -> forall input h, host_parse idna input = Ok h ->
  (known_c10_long (host_display h) = false -> host_parse idna (host_display h) = Ok h)
  /\ (forall d, h = HDomain d ->
        Forall (fun c => c < 128 /\ is_upper c = false /\ Spec.forbidden_domain_code_point c = false) d).
Proof.
  intros idna OK input h H. split; [exact (special_display_rt2 idna input h OK H)|].
  intros d ->. exact (domain_form2 idna input d OK H).
Qed.
Check C09_display_rt2 : forall idna, IdnaOK2 idna -> forall input h, host_parse idna input = Ok h ->
  (known_c10_long (host_display h) = false -> host_parse idna (host_display h) = Ok h)
  /\ (forall d, h = HDomain d ->
        Forall (fun c => c < 128 /\ is_upper c = false /\ Spec.forbidden_domain_code_point c = false) d).
Print Assumptions C09_display_rt2.

(* ---- the exclusion is necessary: an oracle that satisfies IdnaOK2, answers "x" with the label xn--a...a (2001 a's) and
   refuses that label, as the crate does with its own long outputs.  IdnaOK is false of it; Host::parse "x" succeeds and
   parsing the display text of the result fails: the display round trip of C09 without the exclusion is FALSE ---- *)
Theorem C09_long_refuted :
  (IdnaOK2 idna_long /\ ~ IdnaOK idna_long
   /\ host_parse idna_long [120] = Ok (HDomain W_long_label)
   /\ host_parse idna_long (host_display (HDomain W_long_label)) = Err IdnaError
   /\ host_in_class idna_long [120] = true
   /\ host_parse (cap idna_long) [120] = Err IdnaError)
  /\ ~ (forall idna, IdnaOK2 idna -> forall input h, host_parse idna input = Ok h -> host_parse idna (host_display h) = Ok h).
Proof. exact (conj long_refuted display_rt_needs_class). Qed.
Check C09_long_refuted :
  (IdnaOK2 idna_long /\ ~ IdnaOK idna_long
   /\ host_parse idna_long [120] = Ok (HDomain W_long_label)
   /\ host_parse idna_long (host_display (HDomain W_long_label)) = Err IdnaError
   /\ host_in_class idna_long [120] = true
   /\ host_parse (cap idna_long) [120] = Err IdnaError)
  /\ ~ (forall idna, IdnaOK2 idna -> forall input h, host_parse idna input = Ok h -> host_parse idna (host_display h) = Ok h).
Print Assumptions C09_long_refuted.

(* ---- the same on the IDNA MODEL (Model/Uts46.v called as host.rs calls it, lower-casing adapter of
   Proofs/Idna_C10b_Long.v): the host of the 1000 ideographs U+4E00 + 20*i is accepted as a 2962-character domain inside
   the class, which Host::parse refuses; http://<those ideographs>/ parses, its serialization (2970 bytes) does not
   (confirmed on the crates: Url::parse(u.as_str()) = Err(IdnaError), Host::parse(u.host_str()) = Err).  And for EVERY
   adapter an answer of the model inside the class refutes IdnaOK ---- *)
Theorem C09_long_model :
  (idna_low Idna_C10b_Long.W_C10_long = Some Idna_C10b_Long.W_C10_long_A /\ known_c10_long Idna_C10b_Long.W_C10_long_A = true /\ idna_low Idna_C10b_Long.W_C10_long_A = None
   /\ host_parse idna_low Idna_C10b_Long.W_C10_long_U = Ok (HDomain Idna_C10b_Long.W_C10_long_A)
   /\ host_parse idna_low (host_display (HDomain Idna_C10b_Long.W_C10_long_A)) = Err IdnaError
   /\ host_in_class idna_low Idna_C10b_Long.W_C10_long_U = true
   /\ host_parse (cap idna_low) Idna_C10b_Long.W_C10_long_U = Err IdnaError)
  /\ (parse_url false (host_parse idna_low) host_parse_opaque host_display None None W_long_url = POk wm_u
      /\ ser wm_u = W_long_url_ser /\ nlen (ser wm_u) = 2970
      /\ parse_url false (host_parse idna_low) host_parse_opaque host_display None None (utf8_lossy (ser wm_u)) = PErr IdnaError)
  /\ ~ IdnaOK idna_low
  /\ (forall A cfg bs d, idna_of A cfg bs = Some d -> known_c10_long d = true -> ~ IdnaOK (idna_of A cfg)).
Proof. exact (conj model_long_host (conj model_long_url (conj model_long_not_IdnaOK class_answer_not_IdnaOK))). Qed.
Check C09_long_model :
  (idna_low Idna_C10b_Long.W_C10_long = Some Idna_C10b_Long.W_C10_long_A /\ known_c10_long Idna_C10b_Long.W_C10_long_A = true /\ idna_low Idna_C10b_Long.W_C10_long_A = None
   /\ host_parse idna_low Idna_C10b_Long.W_C10_long_U = Ok (HDomain Idna_C10b_Long.W_C10_long_A)
   /\ host_parse idna_low (host_display (HDomain Idna_C10b_Long.W_C10_long_A)) = Err IdnaError
   /\ host_in_class idna_low Idna_C10b_Long.W_C10_long_U = true
   /\ host_parse (cap idna_low) Idna_C10b_Long.W_C10_long_U = Err IdnaError)
  /\ (parse_url false (host_parse idna_low) host_parse_opaque host_display None None W_long_url = POk wm_u
      /\ ser wm_u = W_long_url_ser /\ nlen (ser wm_u) = 2970
      /\ parse_url false (host_parse idna_low) host_parse_opaque host_display None None (utf8_lossy (ser wm_u)) = PErr IdnaError)
  /\ ~ IdnaOK idna_low
  /\ (forall A cfg bs d, idna_of A cfg bs = Some d -> known_c10_long d = true -> ~ IdnaOK (idna_of A cfg)).
Print Assumptions C09_long_model.
Check (eq_refl : idna_low = idna_of Idna_C10b_Long.lowad false).
Check (eq_refl : W_long_url = (B "http://" ++ Idna_C10b_Long.W_C10_long_U ++ [47])%list).
Check (eq_refl : W_long_url_ser = (B "http://" ++ Idna_C10b_Long.W_C10_long_A ++ [47])%list).

(* ---- what IdnaOK2 amounts to for the IDNA model: C10's output statement, idempotence OUTSIDE the class at the options
   host.rs uses (an instance of the corrected statement C10_idem_statement2), dotted decimal mapped to itself ---- *)
Theorem C09_idna_premise2 : forall A cfg,
  C10_ascii_statement A cfg -> idem_url2 A cfg -> v4_fixed A cfg -> IdnaOK2 (idna_of A cfg).
Proof. exact IdnaOK2_of_model. Qed.
Check C09_idna_premise2 : forall A cfg,
  C10_ascii_statement A cfg ->
  (forall d b r, bytes d -> to_ascii A cfg d DENY_URL HAllow DIgnore = U32_c13.Ok (b, r) ->
     Idna_C10b_Long.Known_C10_long r = false ->
     exists b', to_ascii A cfg r DENY_URL HAllow DIgnore = U32_c13.Ok (b', r)) ->
  (forall a, a < 4294967296 ->
     exists b, to_ascii A cfg (ipv4_display a) DENY_URL HAllow DIgnore = U32_c13.Ok (b, ipv4_display a)) ->
  IdnaOK2 (idna_of A cfg).
Print Assumptions C09_idna_premise2.

(* ---- agreement, the URL parser: the parser model calls Host::parse in three places and passes every error on, so the
   run with the capped oracle is the run with the oracle itself, or stops with IdnaError (at the first host whose oracle
   answer is in the class).  run_clean dbg idna ovr base input = the two runs are equal = "no host of the run is in the
   class"; a capped run that succeeds is a clean run with the same result ---- *)
Theorem C09_cap_parse_url : forall dbg idna ovr base input,
  (parse_url dbg (host_parse (cap idna)) host_parse_opaque host_display ovr base input
     = parse_url dbg (host_parse idna) host_parse_opaque host_display ovr base input
   \/ parse_url dbg (host_parse (cap idna)) host_parse_opaque host_display ovr base input = PErr IdnaError)
  /\ (forall u, parse_url dbg (host_parse (cap idna)) host_parse_opaque host_display ovr base input = POk u ->
        parse_url dbg (host_parse idna) host_parse_opaque host_display ovr base input = POk u
        /\ run_clean dbg idna ovr base input).
Proof. exact (fun dbg idna ovr base input => conj (parse_url_cap dbg idna ovr base input) (parse_url_cap_ok dbg idna ovr base input)). Qed.
Check C09_cap_parse_url : forall dbg idna ovr base input,
  (parse_url dbg (host_parse (cap idna)) host_parse_opaque host_display ovr base input
     = parse_url dbg (host_parse idna) host_parse_opaque host_display ovr base input
   \/ parse_url dbg (host_parse (cap idna)) host_parse_opaque host_display ovr base input = PErr IdnaError)
  /\ (forall u, parse_url dbg (host_parse (cap idna)) host_parse_opaque host_display ovr base input = POk u ->
        parse_url dbg (host_parse idna) host_parse_opaque host_display ovr base input = POk u
        /\ parse_url dbg (host_parse (cap idna)) host_parse_opaque host_display ovr base input
           = parse_url dbg (host_parse idna) host_parse_opaque host_display ovr base input).
Print Assumptions C09_cap_parse_url.

(* ---- agreement, histories: three mutators call Host::parse (Url::set_host, quirks set_host / set_hostname) and
   return the URL unchanged when the host is refused, so a step with the capped oracle is the step with the oracle
   itself or leaves the URL as it was; every URL reachable (parse, join, the 19 mutators) with the capped oracle is
   reachable with the oracle itself, and the clean histories of the model are histories of the capped model ---- *)
Theorem C09_cap_history : forall dbg idna,
  (forall u o, C05_History.apply_op dbg (host_parse (cap idna)) host_parse_opaque host_display u o
               = C05_History.apply_op dbg (host_parse idna) host_parse_opaque host_display u o
            \/ C05_History.apply_op dbg (host_parse (cap idna)) host_parse_opaque host_display u o = Some u)
  /\ (forall u o, C02_Reach.apply_op dbg (host_parse (cap idna)) host_parse_opaque host_display u o
               = C02_Reach.apply_op dbg (host_parse idna) host_parse_opaque host_display u o
            \/ C02_Reach.apply_op dbg (host_parse (cap idna)) host_parse_opaque host_display u o = Some u)
  /\ (forall u, ReachableM dbg (cap idna) u -> ReachableM dbg idna u)
  /\ (forall u, ReachableClean dbg idna u -> ReachableM dbg (cap idna) u).
Proof.
  exact (fun dbg idna => conj (apply_op5_cap dbg idna) (conj (apply_op2_cap dbg idna)
           (conj (ReachableM_cap dbg idna) (ReachableClean_cap dbg idna)))).
Qed.
Check C09_cap_history : forall dbg idna,
  (forall u o, C05_History.apply_op dbg (host_parse (cap idna)) host_parse_opaque host_display u o
               = C05_History.apply_op dbg (host_parse idna) host_parse_opaque host_display u o
            \/ C05_History.apply_op dbg (host_parse (cap idna)) host_parse_opaque host_display u o = Some u)
  /\ (forall u o, C02_Reach.apply_op dbg (host_parse (cap idna)) host_parse_opaque host_display u o
               = C02_Reach.apply_op dbg (host_parse idna) host_parse_opaque host_display u o
            \/ C02_Reach.apply_op dbg (host_parse (cap idna)) host_parse_opaque host_display u o = Some u)
  /\ (forall u, ReachableM dbg (cap idna) u -> ReachableM dbg idna u)
  /\ (forall u, ReachableClean dbg idna u -> ReachableM dbg (cap idna) u).
Print Assumptions C09_cap_history.

(* ====================================================================================== *)
(* Corrected instantiations: the oracle ITSELF, premise IdnaOK2 + "no host of the run is in the class" *)
(* ====================================================================================== *)
(* C02 classes (i)-(iv): = C09_inst_C02_reparse_nonfile at the capped oracle + agreement on both runs *)
Theorem C09_inst2_C02_reparse_nonfile : forall dbg idna, IdnaOK2 idna -> forall input u,
  usv_list input -> nonfile_input input = true ->
  parse_url dbg (host_parse idna) host_parse_opaque host_display None None input = POk u ->
  run_clean dbg idna None None input ->
  parse_url dbg (host_parse idna) host_parse_opaque host_display None None (utf8_lossy (ser u)) = POk u
  /\ run_clean dbg idna None None (utf8_lossy (ser u)) /\ wf_b u = true /\ ascii (ser u).
Proof. exact (fun dbg idna OK input u => reparse_nonfile_model2 dbg idna OK input u). Qed.
Check C09_inst2_C02_reparse_nonfile : forall dbg idna, IdnaOK2 idna -> forall input u,
  usv_list input -> nonfile_input input = true ->
  parse_url dbg (host_parse idna) host_parse_opaque host_display None None input = POk u ->
  parse_url dbg (host_parse (cap idna)) host_parse_opaque host_display None None input
    = parse_url dbg (host_parse idna) host_parse_opaque host_display None None input ->
  parse_url dbg (host_parse idna) host_parse_opaque host_display None None (utf8_lossy (ser u)) = POk u
  /\ run_clean dbg idna None None (utf8_lossy (ser u)) /\ wf_b u = true /\ ascii (ser u).
Print Assumptions C09_inst2_C02_reparse_nonfile.

(* class (iii), any encoding override; class (iv) with the canonical form (relative to the capped host parser) *)
Theorem C09_inst2_C02_reparse_auth : forall dbg idna, IdnaOK2 idna -> forall ovr input u,
  usv_list input -> auth_input input = true ->
  parse_url dbg (host_parse idna) host_parse_opaque host_display ovr None input = POk u ->
  run_clean dbg idna ovr None input ->
  parse_url dbg (host_parse idna) host_parse_opaque host_display None None (utf8_lossy (ser u)) = POk u
  /\ run_clean dbg idna None None (utf8_lossy (ser u)) /\ wf_b u = true.
Proof. exact (fun dbg idna OK ovr input u => reparse_auth_model2 dbg idna OK ovr input u). Qed.
Print Assumptions C09_inst2_C02_reparse_auth.

Theorem C09_inst2_C02_reparse_special : forall dbg idna, IdnaOK2 idna -> forall input u,
  usv_list input -> special_input input = true ->
  parse_url dbg (host_parse idna) host_parse_opaque host_display None None input = POk u ->
  run_clean dbg idna None None input ->
  parse_url dbg (host_parse idna) host_parse_opaque host_display None None (utf8_lossy (ser u)) = POk u
  /\ run_clean dbg idna None None (utf8_lossy (ser u)) /\ wf_b u = true
  /\ canon_special (host_parse (cap idna)) host_parse_opaque host_display u.
Proof. exact (fun dbg idna OK input u => reparse_special_model2 dbg idna OK input u). Qed.
Print Assumptions C09_inst2_C02_reparse_special.

(* the premise run_clean cannot be dropped: on the linked model with the stand-in oracle, Url::parse("http://x/")
   succeeds with the long host, the re-parse of its serialization is PErr IdnaError, the capped run is PErr IdnaError *)
Theorem C09_inst2_C02_refuted :
  (parse_url true (host_parse idna_long) host_parse_opaque host_display None None wl_input = POk wl_u
   /\ ser wl_u = (B "http://" ++ W_long_label ++ [47])%list
   /\ nonfile_input wl_input = true /\ special_input wl_input = true
   /\ parse_url true (host_parse idna_long) host_parse_opaque host_display None None (utf8_lossy (ser wl_u)) = PErr IdnaError
   /\ parse_url true (host_parse (cap idna_long)) host_parse_opaque host_display None None wl_input = PErr IdnaError)
  /\ ~ (forall dbg idna, IdnaOK2 idna -> forall input u, usv_list input -> nonfile_input input = true ->
          parse_url dbg (host_parse idna) host_parse_opaque host_display None None input = POk u ->
          parse_url dbg (host_parse idna) host_parse_opaque host_display None None (utf8_lossy (ser u)) = POk u).
Proof. exact (conj url_long_refuted reparse_needs_clean). Qed.
Print Assumptions C09_inst2_C02_refuted.
Check (eq_refl : wl_input = B "http://x/").

(* C02 for whole histories ReachC (C02_reach_partial_model): parse without base on a non-file scheme, then
   set_fragment / set_query / set_port with arbitrary arguments and joins with an empty, fragment-only or query-led
   reference.  A ReachC history of the capped model is a ReachC history of the model (its parse being a clean run), and
   its result is a fixpoint of serialize-then-parse with the oracle itself *)
Theorem C09_inst2_C02_reach_partial : forall dbg idna, IdnaOK2 idna -> forall u,
  C02_ReachPartial.ReachC dbg (host_parse (cap idna)) host_parse_opaque host_display u ->
  C02_ReachPartial.ReachC dbg (host_parse idna) host_parse_opaque host_display u
  /\ parse_url dbg (host_parse idna) host_parse_opaque host_display None None (utf8_lossy (ser u)) = POk u
  /\ run_clean dbg idna None None (utf8_lossy (ser u)) /\ wf_b u = true /\ ascii (ser u).
Proof. exact (fun dbg idna OK u => reach_partial_model2 dbg idna OK u). Qed.
Print Assumptions C09_inst2_C02_reach_partial.

(* C05: the alphabet theorems use the FIRST clause of the hypothesis only (every oracle output is ASCII outside the
   deny list) - they hold for the oracle itself under IdnaOK2 with NO premise about the class: whole parser, sharper
   form, whole histories (parse, join, the 19 mutators with arbitrary arguments) *)
Theorem C09_inst2_C05 : forall dbg idna, IdnaOK2 idna ->
  (forall ovr base input u, match base with Some b => Forall ok_or_space (ser b) | None => True end ->
     parse_url dbg (host_parse idna) host_parse_opaque host_display ovr base input = POk u -> Forall ok_or_space (ser u))
  /\ (forall ovr base input u, usv_list input -> match base with Some b => sharp b | None => True end ->
     parse_url dbg (host_parse idna) host_parse_opaque host_display ovr base input = POk u -> sharp u)
  /\ (forall u, ReachableM dbg idna u -> Forall ok_or_space (ser u)).
Proof.
  exact (fun dbg idna OK => conj (parse_alphabet_model2 dbg idna OK) (conj (parse_sharp_model2 dbg idna OK)
           (history_alphabet_model2 dbg idna OK))).
Qed.
Check C09_inst2_C05 : forall dbg idna, IdnaOK2 idna ->
  (forall ovr base input u, match base with Some b => Forall ok_or_space (ser b) | None => True end ->
     parse_url dbg (host_parse idna) host_parse_opaque host_display ovr base input = POk u -> Forall ok_or_space (ser u))
  /\ (forall ovr base input u, usv_list input -> match base with Some b => sharp b | None => True end ->
     parse_url dbg (host_parse idna) host_parse_opaque host_display ovr base input = POk u -> sharp u)
  /\ (forall u, ReachableM dbg idna u -> Forall ok_or_space (ser u)).
Print Assumptions C09_inst2_C05.

(* C16: the origin round trip.  url_origin re-enters the parser on the path of a blob: URL and swallows its errors, so
   the premise is stated as: parse and origin succeed with the capped oracle (= with the oracle itself on clean runs);
   all four runs of the conclusion are runs with the oracle itself *)
Theorem C09_inst2_C16_rt_parsed : forall dbg idna, IdnaOK2 idna -> forall input u c o c',
  url_parse dbg (host_parse (cap idna)) host_parse_opaque host_display input = POk u ->
  url_origin dbg (host_parse (cap idna)) host_parse_opaque host_display c u = OOk o c' -> is_tuple o = true ->
  nlen (ascii_serialization host_display o) < U32_MAX_P ->
  (url_parse dbg (host_parse idna) host_parse_opaque host_display input = POk u
   /\ url_origin dbg (host_parse idna) host_parse_opaque host_display c u = OOk o c')
  /\ exists w, url_parse dbg (host_parse idna) host_parse_opaque host_display (ascii_serialization host_display o) = POk w
               /\ url_origin dbg (host_parse idna) host_parse_opaque host_display c' w = OOk o c'.
Proof. exact (fun dbg idna OK input u c o c' => origin_rt_model2 dbg idna OK input u c o c'). Qed.
Print Assumptions C09_inst2_C16_rt_parsed.

(* non-vacuity: the stand-in oracle satisfies IdnaOK2 and not IdnaOK; Host::parse "a.b" is outside the class, the capped
   run agrees; the run of the linked model on http://a.b:81/p is clean and in the classes of the theorems above *)
Example C09_inst2_examples :
  IdnaOK2 idna_long
  /\ host_parse idna_long [97; 46; 98] = Ok (HDomain [97; 46; 98]) /\ known_c10_long (host_display (HDomain [97; 46; 98])) = false
  /\ host_in_class idna_long [97; 46; 98] = false
  /\ host_parse (cap idna_long) [97; 46; 98] = Ok (HDomain [97; 46; 98])
  /\ host_parse idna_long [49; 46; 50] = Ok (HIpv4 16777218)
  /\ run_clean true idna_long None None (B "http://a.b:81/p")
  /\ nonfile_input (B "http://a.b:81/p") = true /\ special_input (B "http://a.b:81/p") = true
  /\ match parse_url true (host_parse idna_long) host_parse_opaque host_display None None (B "http://a.b:81/p") with
     | POk u => list_eqb (ser u) (B "http://a.b:81/p") | _ => false end = true.
Proof.
  split; [exact idna_long_ok2|]. destruct long_premises_hold as (H1 & H2 & H3 & H4 & H5).
  repeat (split; [assumption|]). unfold run_clean. vm_compute. repeat split; reflexivity.
Qed.

(* ====================================================================================== *)
(* task c09fin: the premises of the C09_inst2_* theorems discharged / made result-level   *)
(* ====================================================================================== *)
From RU Require Import Proofs.C09_Uts46 Proofs.C09_RunClean Proofs.C09_Inst2 Proofs.C05_HostParse.
From RU Require Proofs.Idna_WalkEnc Proofs.Idna_C10_Inner Proofs.Idna_C10b_Stmt Proofs.Idna_C10c_Drun Proofs.Idna_C10c_Example
  Proofs.C02_Reach3 Proofs.C02_Reach5 Proofs.C03_ParseFront Proofs.C05_ReachF Proofs.C05_HostInst Proofs.C05_HostText
  Proofs.C05_Alphabet Proofs.C04_ParseTotal Proofs.C05_CompSteps.

(* ---- IdnaOK2 for the IDNA MODEL (Model/Uts46.v called as host.rs calls it) from the PROVED theorems of C10: clause 1 from
   C10_ascii (NvNoTrunc), clause 2 from C10_idem3 (the six sampled adapter facts), clause 3 - dotted-decimal text is mapped
   to itself - from C10_an for EVERY adapter (the text of an Ipv4Addr is in the adapter-free class AN).  The premises are
   facts about the ADAPTER only (idna_adapter: normalizer and tables), each sampled on the real crate by the `adapter`
   stream of the harness ---- *)
Theorem C09_IdnaOK2_uts46 : forall A cfg,
  Idna_Hyp.AdapterOK A -> Idna_WalkEnc.AdapterUSV A -> Idna_C10_Inner.NvNoTrunc A -> Idna_C10b_Stmt.NvIdem A ->
  Idna_C10b_Stmt.AsciiNoMark A -> Idna_C10c_Drun.MapPrefix A -> IdnaOK2 (idna_of A cfg).
Proof. exact IdnaOK2_uts46. Qed.
Check C09_IdnaOK2_uts46 : forall A cfg,
  Idna_Hyp.AdapterOK A -> Idna_WalkEnc.AdapterUSV A -> Idna_C10_Inner.NvNoTrunc A -> Idna_C10b_Stmt.NvIdem A ->
  Idna_C10b_Stmt.AsciiNoMark A -> Idna_C10c_Drun.MapPrefix A -> IdnaOK2 (idna_of A cfg).
Print Assumptions C09_IdnaOK2_uts46.

(* the dotted-decimal clause, every adapter: ToASCII at the options of host.rs maps a text of digits and dots to itself *)
Theorem C09_v4_fixed : forall A cfg, v4_fixed A cfg.
Proof. exact v4_fixed_all. Qed.
Check C09_v4_fixed : forall A cfg a, a < 4294967296 ->
  exists b, to_ascii A cfg (ipv4_display a) DENY_URL HAllow DIgnore = U32_c13.Ok (b, ipv4_display a).
Print Assumptions C09_v4_fixed.

(* the six premises are satisfiable (adapter lowsan of Proofs/Idna_C10c_Example.v) *)
Example C09_IdnaOK2_uts46_inhabited : IdnaOK2 (idna_of Idna_C10c_Example.lowsan true).
Proof. exact IdnaOK2_uts46_lowsan. Qed.

(* ---- run_clean from the RESULT.  ht u = the stored host text (the slice [host_start, host_end) of the serialization).
   res_clean u = ht u is outside Known_C10_long, and a file URL has kept its host.  A run of the parser calls Host::parse
   at most once and stores the Display text of the host it got as the host text of the result (host-text tracking through
   after_double_slash and the file host state); so a successful run whose result passes res_clean is a clean run ---- *)
Check (eq_refl : res_clean = fun u =>
  negb (known_c10_long (ht u)) && (negb (list_eqb (b_scheme u) s_file) || has_host u)).
Check (eq_refl : ht = fun u => C03_WF.piece u (host_start u) (host_end u)).

Theorem C09_run_clean_result : forall dbg idna, IdnaOK2 idna -> forall ovr base input u,
  match base with Some b => wf_b b = true | None => True end ->
  parse_url dbg (host_parse idna) host_parse_opaque host_display ovr base input = POk u -> res_clean u = true ->
  run_clean dbg idna ovr base input.
Proof. exact run_clean_of_result. Qed.
Check C09_run_clean_result : forall dbg idna, IdnaOK2 idna -> forall ovr base input u,
  match base with Some b => wf_b b = true | None => True end ->
  parse_url dbg (host_parse idna) host_parse_opaque host_display ovr base input = POk u -> res_clean u = true ->
  parse_url dbg (host_parse (cap idna)) host_parse_opaque host_display ovr base input
    = parse_url dbg (host_parse idna) host_parse_opaque host_display ovr base input.
Print Assumptions C09_run_clean_result.

(* the file clause of res_clean cannot be dropped: for file URLs the path parser drops the host in front of a Windows drive
   letter, so Url::parse("file://x/C:/") = file:///C:/ has no host text although the run parsed the host x - with the
   stand-in oracle, a host inside the class: the capped run is PErr IdnaError *)
Theorem C09_run_clean_file_refuted :
  (match parse_url true (host_parse idna_long) host_parse_opaque host_display None None wq_input with
   | POk u => list_eqb (ser u) (B "file:///C:/") && hi_eqb (hosti u) HI_None && negb (known_c10_long (ht u))
              && negb (res_clean u)
   | _ => false
   end = true
   /\ parse_url true (host_parse (cap idna_long)) host_parse_opaque host_display None None wq_input = PErr IdnaError
   /\ ~ run_clean true idna_long None None wq_input)
  /\ ~ (forall dbg idna, IdnaOK2 idna -> forall input u,
          parse_url dbg (host_parse idna) host_parse_opaque host_display None None input = POk u ->
          known_c10_long (ht u) = false -> run_clean dbg idna None None input).
Proof. exact (conj run_clean_file_refuted run_clean_needs_file_clause). Qed.
Print Assumptions C09_run_clean_file_refuted.
Check (eq_refl : wq_input = B "file://x/C:/").

(* the three mutators that call Host::parse (Url::set_host, quirks set_host / set_hostname; a refused host leaves the URL
   as it was with either oracle): a step from a well-formed URL whose RESULT has its host text outside the class is a
   clean step (the step with the capped oracle is the same step) *)
Theorem C09_step_clean_result : forall dbg idna, IdnaOK2 idna -> forall u o u', wf_b u = true ->
  C05_History.apply_op dbg (host_parse idna) host_parse_opaque host_display u o = Some u' ->
  known_c10_long (ht u') = false -> step_clean dbg idna u o.
Proof. exact step_clean_of_result. Qed.
Check C09_step_clean_result : forall dbg idna, IdnaOK2 idna -> forall u o u', wf_b u = true ->
  C05_History.apply_op dbg (host_parse idna) host_parse_opaque host_display u o = Some u' ->
  known_c10_long (ht u') = false ->
  C05_History.apply_op dbg (host_parse (cap idna)) host_parse_opaque host_display u o
    = C05_History.apply_op dbg (host_parse idna) host_parse_opaque host_display u o.
Print Assumptions C09_step_clean_result.

Example C09_res_clean_examples :
  match parse_url true (host_parse idna_long) host_parse_opaque host_display None None (B "http://a.b:81/p") with
  | POk u => res_clean u && list_eqb (ht u) (B "a.b")
             && match C05_History.apply_op true (host_parse idna_long) host_parse_opaque host_display u (C05_History.OQHost (B "c.d:82")) with
                | Some u' => list_eqb (ser u') (B "http://c.d:82/p") && negb (known_c10_long (ht u'))
                | None => false
                end
  | _ => false
  end = true
  /\ match parse_url true (host_parse idna_long) host_parse_opaque host_display None None (B "file://a.b/p") with
     | POk u => res_clean u | _ => false end = true
  /\ match parse_url true (host_parse idna_long) host_parse_opaque host_display None None (B "http://x/") with
     | POk u => res_clean u | _ => true end = false.
Proof. exact res_clean_examples. Qed.

(* ---- the *_model theorems of C02 / C03 / C05 (stated relative to IdnaOK: vacuous for the real crate) re-stated for the
   oracle ITSELF: IdnaOK2 + the result-level premise (parse results) or the histories of the capped model ---- *)
(* C02 classes (i)-(iv): C09_inst2_C02_reparse_nonfile with the per-run premise replaced by the host text of the result *)
Theorem C09_inst2_C02_reparse_nonfile_res : forall dbg idna, IdnaOK2 idna -> forall input u,
  usv_list input -> nonfile_input input = true ->
  parse_url dbg (host_parse idna) host_parse_opaque host_display None None input = POk u ->
  b_scheme u <> s_file -> known_c10_long (ht u) = false ->
  parse_url dbg (host_parse idna) host_parse_opaque host_display None None (utf8_lossy (ser u)) = POk u
  /\ run_clean dbg idna None None (utf8_lossy (ser u)) /\ wf_b u = true /\ ascii (ser u).
Proof. exact reparse_nonfile_res. Qed.
Print Assumptions C09_inst2_C02_reparse_nonfile_res.

(* C03_parse_reachability / C05_parse_base_ok (C09_inst_C03_parse_reachability, C09_inst_C05_parse_base_ok) *)
Theorem C09_inst2_C03_parse_reachability : forall dbg idna, IdnaOK2 idna -> forall ovr base input u,
  match base with Some b => base_ok b = true /\ C06_Suffix.host_text_ok b | None => True end ->
  parse_url dbg (host_parse idna) host_parse_opaque host_display ovr base input = POk u -> res_clean u = true ->
  (wf_b u = true /\ C06_Suffix.host_text_ok u) /\ base_ok u = true.
Proof.
  exact (fun dbg idna OK ovr base input u Hb H C =>
           conj (parse_wf_model2 dbg idna OK ovr base input u Hb H C) (proj1 (parse_base_ok_model2 dbg idna OK ovr base input u Hb H C))).
Qed.
Print Assumptions C09_inst2_C03_parse_reachability.

(* C05_components_parse (C09_inst_C05_components_parse): the five component clauses of the property text *)
Theorem C09_inst2_C05_components_parse : forall dbg idna, IdnaOK2 idna -> forall dbg' ovr base input u,
  match base with Some b => CInv dbg' b /\ base_ok b = true | None => True end ->
  parse_url dbg (host_parse idna) host_parse_opaque host_display ovr base input = POk u -> res_clean u = true ->
  CInv dbg' u /\ components_clean dbg' u.
Proof. exact parse_components_model2. Qed.
Print Assumptions C09_inst2_C05_components_parse.

(* C03_reachability_full_model (the invariant inv03 = wfh, AS, PN, HE along parse, join and all mutators), C05_reachF_model
   (the property text of C05 along CReachF), C02_reach_partial4_model (the re-parse fixpoint along ReachC4) for the
   histories of the CAPPED model; the re-parse of C02 is a run with the oracle ITSELF and a clean one *)
Theorem C09_inst2_C03_reachability_full : forall dbg idna, IdnaOK2 idna -> forall u,
  C02_Reach3.Reachable3 dbg (host_parse (cap idna)) host_parse_opaque host_display u -> C03_ParseFront.inv03 u.
Proof. exact reach3_model2. Qed.
Print Assumptions C09_inst2_C03_reachability_full.

Theorem C09_inst2_C05_reachF : forall dbg idna, IdnaOK2 idna -> forall u,
  C05_ReachF.CReachF dbg (host_parse (cap idna)) host_parse_opaque host_display u ->
  (wfh u /\ components_clean dbg u) /\ C05_Alphabet.alphabet_ok u /\ sharp u /\ base_ok u = true
  /\ (C05_HostText.spb u = true -> forall s, host_str u = Some (Some s) -> C05_HostInst.host_text_clean s).
Proof. exact reachF_model2. Qed.
Print Assumptions C09_inst2_C05_reachF.

Theorem C09_inst2_C02_reach_partial4 : forall dbg idna, IdnaOK2 idna -> forall u,
  C02_Reach5.ReachC4 dbg (host_parse (cap idna)) host_parse_opaque host_display u ->
  parse_url dbg (host_parse idna) host_parse_opaque host_display None None (utf8_lossy (ser u)) = POk u
  /\ run_clean dbg idna None None (utf8_lossy (ser u)) /\ wf_b u = true /\ ascii (ser u).
Proof. exact reach_partial4_model2. Qed.
Print Assumptions C09_inst2_C02_reach_partial4.

(* ====================================================================================== *)
(* task c09last: the history theorems for the model linked with the REAL oracle            *)
(* ====================================================================================== *)
From RU Require Import Proofs.C09_HistReal.
From RU Require Proofs.C02_Stmt4 Proofs.C02_Reach7 Proofs.C02_Hist Proofs.C02_JoinPath Proofs.C02_JoinAbs Proofs.C02_AuthMain
  Proofs.C05_CompSteps3 Model.QueryPairs Proofs.C15_Ser.

(* ---- the histories of the capped model ARE histories of the model itself, relation by relation (closes the GAP of
   C09_inst2_C03_reachability_full / C09_inst2_C05_reachF / C09_inst2_C02_reach_partial4): a capped run that succeeds is the
   run itself, a capped step is the step itself or returns the URL unchanged, the known-step classes and the step gates do
   not look at Host::parse.  No premise on the oracle ---- *)
Theorem C09_cap_history2 : forall dbg idna,
  (forall u, C02_Reach3.Reachable3 dbg (host_parse (cap idna)) host_parse_opaque host_display u ->
             C02_Reach3.Reachable3 dbg (host_parse idna) host_parse_opaque host_display u)
  /\ (forall u, C02_Stmt4.Reachable4 dbg (host_parse (cap idna)) host_parse_opaque host_display u ->
                C02_Stmt4.Reachable4 dbg (host_parse idna) host_parse_opaque host_display u)
  /\ (forall u, C05_ReachF.CReachF dbg (host_parse (cap idna)) host_parse_opaque host_display u ->
                C05_ReachF.CReachF dbg (host_parse idna) host_parse_opaque host_display u)
  /\ (forall u, C02_Reach7.ReachC6 dbg (host_parse (cap idna)) host_parse_opaque host_display u ->
                C02_Reach7.ReachC6 dbg (host_parse idna) host_parse_opaque host_display u).
Proof.
  exact (fun dbg idna => conj (Reachable3_cap dbg idna) (conj (Reachable4_cap dbg idna)
           (conj (CReachF_cap dbg idna) (ReachC6_cap dbg idna)))).
Qed.
Print Assumptions C09_cap_history2.

(* ---- C02_reach_partial6_model (re-parse fixpoint along ReachC6; premise IdnaOK: vacuous for the real crate) for the
   histories of the capped model: they are ReachC6 histories of the model itself, the re-parse is a run with the oracle
   ITSELF and a clean one ---- *)
Theorem C09_inst2_C02_reach_partial6 : forall dbg idna, IdnaOK2 idna -> forall u,
  C02_Reach7.ReachC6 dbg (host_parse (cap idna)) host_parse_opaque host_display u ->
  C02_Reach7.ReachC6 dbg (host_parse idna) host_parse_opaque host_display u
  /\ parse_url dbg (host_parse idna) host_parse_opaque host_display None None (utf8_lossy (ser u)) = POk u
  /\ run_clean dbg idna None None (utf8_lossy (ser u)) /\ wf_b u = true /\ ascii (ser u).
Proof. exact reach_partial6_model2. Qed.
Print Assumptions C09_inst2_C02_reach_partial6.

(* ---- result-clean histories: the SAME relations over the model with the oracle itself, each parse / join result
   passing res_clean and each step result having its host text outside Known_C10_long (host_clean) - predicates on the
   records of the history, as the Rust twin known_c10_long(host_str) computes them.  Pinned: the constructors ---- *)
Check (eq_refl : host_clean = fun u => known_c10_long (ht u) = false).
Check R3K_parse : forall dbg idna ovr input u, usv_list input ->
  parse_url dbg (host_parse idna) host_parse_opaque host_display ovr None input = POk u ->
  C02_Reach.Known_file_drive u = false -> res_clean u = true -> Reachable3K dbg idna u.
Check R3K_join : forall dbg idna ovr b input u, Reachable3K dbg idna b -> usv_list input ->
  parse_url dbg (host_parse idna) host_parse_opaque host_display ovr (Some b) input = POk u ->
  C02_Reach.Known_file_drive u = false -> res_clean u = true -> Reachable3K dbg idna u.
Check R3K_step : forall dbg idna u o u', Reachable3K dbg idna u -> C02_Reach.op_args_ok o ->
  C02_Hist.known_step2 dbg (host_parse idna) host_parse_opaque host_display u o = false ->
  C02_Reach.apply_op dbg (host_parse idna) host_parse_opaque host_display u o = Some u' ->
  C02_Reach.Known_file_drive u' = false -> host_clean u' -> Reachable3K dbg idna u'.
Check R3K_qpm : forall dbg idna u ops u', Reachable3K dbg idna u -> Forall C15_Ser.op_ok ops ->
  QueryPairs.query_pairs_session dbg u ops = Some u' -> C02_Reach.Known_file_drive u' = false -> Reachable3K dbg idna u'.
Check RC6K_parse : forall dbg idna ovr input u, usv_list input -> C02_AuthMain.nonfile_input input = true ->
  parse_url dbg (host_parse idna) host_parse_opaque host_display ovr None input = POk u -> res_clean u = true -> ReachC6K dbg idna u.
Check RC6K_join_rel : forall dbg idna ovr b input u, ReachC6K dbg idna b -> usv_list input -> C02_JoinPath.rel_ref input = true ->
  parse_url dbg (host_parse idna) host_parse_opaque host_display ovr (Some b) input = POk u -> res_clean u = true -> ReachC6K dbg idna u.
Check RC6K_join_scheme : forall dbg idna ovr b input u, ReachC6K dbg idna b -> usv_list input -> C02_AuthMain.nonfile_input input = true ->
  parse_url dbg (host_parse idna) host_parse_opaque host_display ovr (Some b) input = POk u -> res_clean u = true -> ReachC6K dbg idna u.
Check RC6K_join_abs_any : forall dbg idna ovr b input u, Reachable4K dbg idna b -> usv_list input -> C02_JoinAbs.abs_ref b input = true ->
  parse_url dbg (host_parse idna) host_parse_opaque host_display ovr (Some b) input = POk u -> res_clean u = true -> ReachC6K dbg idna u.
Check RC6K_step : forall dbg idna u o u', ReachC6K dbg idna u -> C02_Reach.op_args_ok o ->
  C02_Stmt4.known_step3 dbg (host_parse idna) host_parse_opaque host_display u o = false ->
  C02_Reach.apply_op dbg (host_parse idna) host_parse_opaque host_display u o = Some u' ->
  nlen (ser u') <= U32_MAX_P -> host_clean u' -> ReachC6K dbg idna u'.
Check RC6K_qpm : forall dbg idna u ops u', ReachC6K dbg idna u -> Forall C15_Ser.op_ok ops ->
  QueryPairs.query_pairs_session dbg u ops = Some u' -> nlen (ser u') <= U32_MAX_P -> ReachC6K dbg idna u'.
Check CRFK_parse : forall dbg idna ovr input u,
  parse_url dbg (host_parse idna) host_parse_opaque host_display ovr None input = POk u -> res_clean u = true -> CReachFK dbg idna u.
Check CRFK_join : forall dbg idna ovr b input u, CReachFK dbg idna b ->
  parse_url dbg (host_parse idna) host_parse_opaque host_display ovr (Some b) input = POk u -> res_clean u = true -> CReachFK dbg idna u.
Check CRFK_step : forall dbg idna u o u', CReachFK dbg idna u ->
  C05_CompSteps3.step_gate3 (host_parse idna) host_parse_opaque host_display u o u' ->
  C05_History.apply_op dbg (host_parse idna) host_parse_opaque host_display u o = Some u' -> host_clean u' -> CReachFK dbg idna u'.
Check CRFK_qpm : forall dbg idna u ops u', CReachFK dbg idna u -> Forall C15_Ser.op_ok ops ->
  QueryPairs.query_pairs_session dbg u ops = Some u' -> CReachFK dbg idna u'.

(* a result-clean history of the model is a history of the capped model AND (C09_cap_history2) a history of the model *)
Theorem C09_clean_history : forall dbg idna, IdnaOK2 idna ->
  (forall u, Reachable3K dbg idna u -> C02_Reach3.Reachable3 dbg (host_parse (cap idna)) host_parse_opaque host_display u
                                     /\ C02_Reach3.Reachable3 dbg (host_parse idna) host_parse_opaque host_display u)
  /\ (forall u, Reachable4K dbg idna u -> C02_Stmt4.Reachable4 dbg (host_parse (cap idna)) host_parse_opaque host_display u)
  /\ (forall u, ReachC6K dbg idna u -> C02_Reach7.ReachC6 dbg (host_parse (cap idna)) host_parse_opaque host_display u
                                    /\ C02_Reach7.ReachC6 dbg (host_parse idna) host_parse_opaque host_display u)
  /\ (forall u, CReachFK dbg idna u -> C05_ReachF.CReachF dbg (host_parse (cap idna)) host_parse_opaque host_display u
                                    /\ C05_ReachF.CReachF dbg (host_parse idna) host_parse_opaque host_display u).
Proof.
  exact (fun dbg idna OK =>
    conj (fun u H => conj (Reachable3K_cap dbg idna OK u H) (Reachable3K_3 dbg idna OK u H))
   (conj (Reachable4K_cap dbg idna OK)
   (conj (fun u H => conj (ReachC6K_cap dbg idna OK u H) (ReachC6K_6 dbg idna OK u H))
         (fun u H => conj (CReachFK_cap dbg idna OK u H) (CReachFK_F dbg idna OK u H))))).
Qed.
Print Assumptions C09_clean_history.

(* ---- C03_reachability_full_model, C05_reachF_model, C02_reach_partial6_model as statements about the model with the
   REAL oracle: premise IdnaOK2 (derived for the uts46 model in C09_IdnaOK2_uts46) + a result-clean history ---- *)
Theorem C09_real_C03_reachability_full : forall dbg idna, IdnaOK2 idna -> forall u,
  Reachable3K dbg idna u -> C03_ParseFront.inv03 u.
Proof. exact reach3_real. Qed.
Print Assumptions C09_real_C03_reachability_full.

Theorem C09_real_C05_reachF : forall dbg idna, IdnaOK2 idna -> forall u, CReachFK dbg idna u ->
  (wfh u /\ components_clean dbg u) /\ C05_Alphabet.alphabet_ok u /\ sharp u /\ base_ok u = true
  /\ (C05_HostText.spb u = true -> forall s, host_str u = Some (Some s) -> C05_HostInst.host_text_clean s).
Proof. exact reachF_real. Qed.
Print Assumptions C09_real_C05_reachF.

Theorem C09_real_C02_reach_partial6 : forall dbg idna, IdnaOK2 idna -> forall u, ReachC6K dbg idna u ->
  parse_url dbg (host_parse idna) host_parse_opaque host_display None None (utf8_lossy (ser u)) = POk u
  /\ run_clean dbg idna None None (utf8_lossy (ser u)) /\ wf_b u = true /\ ascii (ser u).
Proof. exact reach_partial6_real. Qed.
Print Assumptions C09_real_C02_reach_partial6.

(* non-vacuity (stand-in oracle idna_long: IdnaOK2 holds, IdnaOK does not): Url::parse("http://a.b:81/p") followed by
   quirks set_host("c.d:82") is a result-clean history in all three relations *)
Example C09_real_history_inhabited :
  exists u u',
    parse_url true (host_parse idna_long) host_parse_opaque host_display None None (B "http://a.b:81/p") = POk u
    /\ C02_Reach.apply_op true (host_parse idna_long) host_parse_opaque host_display u (C02_Reach.OQHost (B "c.d:82")) = Some u'
    /\ ser u' = B "http://c.d:82/p"
    /\ Reachable3K true idna_long u' /\ ReachC6K true idna_long u' /\ CReachFK true idna_long u'.
Proof. exact hist_real_inhabited. Qed.
