(* Properties/C11.v - IDNA error reporting across fail-fast / mark-errors / dual output.
   Only statements, closed by `exact`.  The full-strength statements that are not (yet) proved are the
   Definitions C11_*_statement of Proofs/Idna_Hyp.v; see theorem_notes in tools/props_d/C11.py. *)
From RU Require Import Base.Prelude Base.Utf8 Base.U32_c13 Gen.Tables Model.Punycode Model.Uts46
  Proofs.Idna_Sim Proofs.Idna_Api Proofs.Idna_Known Proofs.Idna_Hyp Proofs.Idna_Tables Proofs.Idna_Redisc
  Proofs.Idna_C10_Deny Proofs.Idna_C10_Prefix Proofs.Idna_C10_Inner Proofs.Idna_Mark Proofs.Idna_MarkWalk Proofs.Idna_MarkFffd
  Proofs.Idna_WalkFun Proofs.Idna_WalkInv Proofs.Idna_WalkApi Proofs.Idna_WalkPass.

(* the core: for EVERY adapter, the fail-fast run of process_inner returns early exactly when the
   marking run sets had_errors, and otherwise the two runs produce the same buffers *)
Theorem C11_inner_sim : forall A cfg hy deny d, Redisc A cfg deny ->
  inner_sim (process_inner A cfg true hy deny d) (process_inner A cfg false hy deny d).
Proof. exact process_inner_sim. Qed.
Check C11_inner_sim : forall A cfg hy deny d, Redisc A cfg deny ->
  inner_sim (process_inner A cfg true hy deny d) (process_inner A cfg false hy deny d).
Print Assumptions C11_inner_sim.

(* the premise Redisc follows from two elementary facts: the adapter maps the empty text to the empty text (an
   AdapterOK fact, H0), and upper-case letters are in the deny list (C10_deny_upper / C10_valid_deny: true of every
   deny list the API can build).  The third ingredient, the characterisation of has_punycode_prefix on ASCII text
   (XnPrefixSpec), is the theorem C10_xn_prefix and no longer a premise. *)
Theorem C11_redisc : forall A cfg deny,
  map_normalize A [] = [] -> DenyUpper deny -> Redisc A cfg deny.
Proof. exact redisc_of_adapter. Qed.
Check C11_redisc : forall A cfg deny,
  map_normalize A [] = [] -> DenyUpper deny -> Redisc A cfg deny.
Print Assumptions C11_redisc.

(* same verdict, API level: mark-errors error => fail-fast error; fail-fast error => mark-errors error,
   or (only without debug assertions) the marking run returned Passthrough with had_errors set *)
Theorem C11_same_verdict_partial : forall A cfg d deny hy p b t e, Redisc A cfg deny ->
  to_user_interface A cfg d deny hy p = UI b t e ->
  (e = true -> to_ascii A cfg d deny hy DIgnore = Err) /\
  (to_ascii A cfg d deny hy DIgnore = Err -> e = true \/ (cfg = false /\ b = true /\ t = d)).
Proof.
  intros A cfg d deny hy p b t e HR H. split.
  - intros ->. exact (mark_err_ff_err A cfg d deny hy p b t HR H).
  - intros Ha. exact (ff_err_mark_err A cfg d deny hy p b t e HR Ha H).
Qed.
Check C11_same_verdict_partial : forall A cfg d deny hy p b t e, Redisc A cfg deny ->
  to_user_interface A cfg d deny hy p = UI b t e ->
  (e = true -> to_ascii A cfg d deny hy DIgnore = Err) /\
  (to_ascii A cfg d deny hy DIgnore = Err -> e = true \/ (cfg = false /\ b = true /\ t = d)).
Print Assumptions C11_same_verdict_partial.

(* THE SAME VERDICT, IN FULL (C11_same_verdict_statement): for every byte string, every deny list the API can build,
   every hyphen mode and every output policy, outside the class Known_C11 of findings F-C11-1 / F-C11-2 and when
   neither call panics, the fail-fast to_ascii reports an error exactly when the mark-errors to_user_interface does.
   Only premise about the adapter: it maps the empty text to the empty text (AdapterOK H0, sampled by the harness). *)
Theorem C11_same_verdict : forall A cfg, map_normalize A [] = [] -> C11_same_verdict_statement A cfg.
Proof. exact c11_same_verdict_full. Qed.
Check C11_same_verdict : forall A cfg, map_normalize A [] = [] -> forall d deny hy p, bytes d -> valid_deny deny ->
  Known_C11 A cfg d deny hy = false ->
  is_panic (to_ascii A cfg d deny hy DIgnore) = false -> ui_panics (to_user_interface A cfg d deny hy p) = false ->
  res_err (to_ascii A cfg d deny hy DIgnore) = ui_err (to_user_interface A cfg d deny hy p).
Print Assumptions C11_same_verdict.

(* the adapter premise of C11_same_verdict cannot be dropped: with an adapter that maps the empty text to "a", the
   label "xn--a-" is an error for to_ascii and no error for to_unicode, outside Known_C11 *)
Theorem C11_same_verdict_unconditional_refuted : exists A, forall cfg, ~ C11_same_verdict_statement A cfg.
Proof. exact c11_same_verdict_unconditional_refuted. Qed.
Check C11_same_verdict_unconditional_refuted : exists A, forall cfg, ~ C11_same_verdict_statement A cfg.
Print Assumptions C11_same_verdict_unconditional_refuted.

(* the step behind it: when the marking run of process_inner has set had_errors, then outside Known_C11 process ends
   in a validity error, a sink error or a panic - never in Passthrough or WroteToSink (any sinks, any policy) *)
Theorem C11_mark_err_status : forall A cfg d deny hy p k1 k2 w ptu bd db ap,
  process_inner A cfg false hy deny d = IRes ptu bd true db ap -> Known_C11 A cfg d deny hy = false ->
  match fst (fst (process A cfg false p d deny hy k1 k2 w)) with PPassthrough | PWroteToSink => False | _ => True end.
Proof. exact mark_err_status. Qed.
Check C11_mark_err_status : forall A cfg d deny hy p k1 k2 w ptu bd db ap,
  process_inner A cfg false hy deny d = IRes ptu bd true db ap -> Known_C11 A cfg d deny hy = false ->
  match fst (fst (process A cfg false p d deny hy k1 k2 w)) with PPassthrough | PWroteToSink => False | _ => True end.
Print Assumptions C11_mark_err_status.

(* in the marking run had_errors is set exactly when domain_buffer contains U+FFFD (every adapter, every input):
   the debug assertion of uts46.rs:789 cannot fire *)
Theorem C11_had_errors_exact : forall A cfg hy deny d ptu bd he db ap,
  process_inner A cfg false hy deny d = IRes ptu bd he db ap -> ptu <> len d -> he = existsb is_fffd db.
Proof. exact mark_he_exact. Qed.
Check C11_had_errors_exact : forall A cfg hy deny d ptu bd he db ap,
  process_inner A cfg false hy deny d = IRes ptu bd he db ap -> ptu <> len d -> he = existsb is_fffd db.
Print Assumptions C11_had_errors_exact.

(* THE U+FFFD CLAUSES, IN FULL, for EVERY adapter (no premise), every byte string, every deny list, hyphen mode and
   output policy.  (1) C11_err_fffd_statement: outside Known_C11, an error reported by to_user_interface / to_unicode
   is visible as a U+FFFD in the returned text.  (2) C11_ok_no_fffd_statement: a text returned without error contains
   no U+FFFD. *)
Theorem C11_err_fffd : forall A cfg, C11_err_fffd_statement A cfg.
Proof. exact c11_err_fffd_full. Qed.
Check C11_err_fffd : forall A cfg d deny hy p, bytes d -> valid_deny deny -> Known_C11 A cfg d deny hy = false ->
  ui_err (to_user_interface A cfg d deny hy p) = true -> In FFFD (ui_text (to_user_interface A cfg d deny hy p)).
Print Assumptions C11_err_fffd.

Theorem C11_ok_no_fffd : forall A cfg, C11_ok_no_fffd_statement A cfg.
Proof. exact c11_ok_no_fffd_full. Qed.
Check C11_ok_no_fffd : forall A cfg d deny hy p b t, bytes d -> valid_deny deny ->
  to_user_interface A cfg d deny hy p = UI b t false -> ~ In FFFD t.
Print Assumptions C11_ok_no_fffd.

(* F-C11-2: inside Known_C11 the verdicts differ (no debug assertions) / the marking run panics (with) *)
Theorem C11_same_verdict_refuted : exists A d deny hy p,
  Known_C11 A false d deny hy = true /\
  to_ascii A false d deny hy DIgnore = Err /\
  to_user_interface A false d deny hy p = UI true d false /\
  to_user_interface A true d deny hy p = UIPanic 899.
Proof. exists toy, W_C11_2, DENY_EMPTY, HAllow, never_unicode. exact w_c11_2. Qed.
Check C11_same_verdict_refuted : exists A d deny hy p,
  Known_C11 A false d deny hy = true /\
  to_ascii A false d deny hy DIgnore = Err /\
  to_user_interface A false d deny hy p = UI true d false /\
  to_user_interface A true d deny hy p = UIPanic 899.
Print Assumptions C11_same_verdict_refuted.

(* F-C11-1: inside Known_C11 an error is reported without U+FFFD in the display text *)
Theorem C11_err_fffd_refuted : exists A d deny hy, forall cfg,
  Known_C11 A cfg d deny hy = true /\
  ui_err (to_unicode A cfg d deny hy) = true /\ ~ In FFFD (ui_text (to_unicode A cfg d deny hy)).
Proof.
  exists toy, W_C11_1, DENY_EMPTY, HAllow. intros cfg. destruct (w_c11_1 cfg) as [H1 H2].
  split; [exact H1|]. rewrite H2. split; [reflexivity|]. cbn [ui_text In]. unfold FFFD, REPLACEMENT. lia.
Qed.
Check C11_err_fffd_refuted : exists A d deny hy, forall cfg,
  Known_C11 A cfg d deny hy = true /\
  ui_err (to_unicode A cfg d deny hy) = true /\ ~ In FFFD (ui_text (to_unicode A cfg d deny hy)).
Print Assumptions C11_err_fffd_refuted.

(* with debug assertions and had_errors set, the output walk never ends in Passthrough *)
Theorem C11_no_pass_with_errors_dbg : forall ff p d tld bd labels aps seen pte flushed huo,
  snd (walk1 true ff p d tld bd true labels aps seen pte flushed huo) <> WPass.
Proof. exact walk1_no_pass_dbg. Qed.
Check C11_no_pass_with_errors_dbg : forall ff p d tld bd labels aps seen pte flushed huo,
  snd (walk1 true ff p d tld bd true labels aps seen pte flushed huo) <> WPass.
Print Assumptions C11_no_pass_with_errors_dbg.

(* passthrough, the fastest tier: lower-case letters and dots only; every mode returns Passthrough
   and the input is its own ToASCII and display form *)
Theorem C11_passthrough_partial : forall A cfg ff p d deny hy k1 k2 w, bytes d -> fast_tier d d = None ->
  process A cfg ff p d deny hy k1 k2 w = (PPassthrough, [], []) /\
  Forall lower_or_dot d /\
  to_ascii A cfg d deny hy DIgnore = Ok (true, d) /\
  to_user_interface A cfg d deny hy p = UI true d false.
Proof.
  intros A cfg ff p d deny hy k1 k2 w Hb H. split; [exact (process_fast A cfg ff p d deny hy k1 k2 w H)|].
  split; [exact (fast_tier_none d Hb d H)|]. split; [exact (to_ascii_fast A cfg d deny hy H)|exact (to_ui_fast A cfg d deny hy p H)].
Qed.
Check C11_passthrough_partial : forall A cfg ff p d deny hy k1 k2 w, bytes d -> fast_tier d d = None ->
  process A cfg ff p d deny hy k1 k2 w = (PPassthrough, [], []) /\
  Forall lower_or_dot d /\
  to_ascii A cfg d deny hy DIgnore = Ok (true, d) /\
  to_user_interface A cfg d deny hy p = UI true d false.
Print Assumptions C11_passthrough_partial.

(* ===== the output walks, functionally (task idna3) ===== *)
(* THE FIRST WALK (uts46.rs 802-913), both error modes, every policy, both build configurations, every text the sink
   receives: under the positional invariant of process_inner (one already_punycode entry per label; while the prefix is
   unflushed, domain_name = P ++ the input labels the entries stand for, |P| = passthrough_up_to; fail-fast: no U+FFFD
   in the labels) the walk
     - panics exactly when the Punycode encoder fails on a label that must be encoded (outs = inr site), or - with
       debug assertions and had_errors - where it would return Passthrough (813 / 844 / 899: finding F-C11-2);
     - returns Passthrough exactly when no label forces a write (stays), and then the input is its own output;
     - otherwise writes P ++ the per-label outputs joined by dots (out_label: MixedCaseAscii m -> m lower-cased;
       written as Unicode -> the label; MixedCasePunycode m -> m lower-cased; else "xn--" ++ Punycode(label)) and
       reports had_unicode_output = huo_fin.
   The sites 805, 810, 830, 852, 885 are unreachable. *)
Theorem C11_walk1_functional : forall cfg d he ff p tld bidi labels aps seen pte flushed huo P rl,
  length labels = length aps ->
  (ff = true -> efffd labels = false) ->
  (flushed = false -> labels <> [] /\ d = P ++ tailtext seen rl /\ len P = pte /\ cover aps rl) ->
  Post1 cfg d he flushed P (stays (uni1 ff p tld bidi) labels aps) (outs cfg (uni1 ff p tld bidi) labels aps) seen
        (huo_fin ff p tld bidi huo labels aps) (walk1 cfg ff p d tld bidi he labels aps seen pte flushed huo).
Proof. exact walk1_spec. Qed.
Check C11_walk1_functional : forall cfg d he ff p tld bidi labels aps seen pte flushed huo P rl,
  length labels = length aps ->
  (ff = true -> efffd labels = false) ->
  (flushed = false -> labels <> [] /\ d = P ++ tailtext seen rl /\ len P = pte /\ cover aps rl) ->
  match outs cfg (uni1 ff p tld bidi) labels aps with
  | inl os =>
      if negb flushed && stays (uni1 ff p tld bidi) labels aps then
        P ++ tailtext seen os = d /\
        (if cfg && he
         then exists s, snd (walk1 cfg ff p d tld bidi he labels aps seen pte flushed huo) = WPanic s /\ (s = 813 \/ s = 844 \/ s = 899)
         else snd (walk1 cfg ff p d tld bidi he labels aps seen pte flushed huo) = WPass)
      else snd (walk1 cfg ff p d tld bidi he labels aps seen pte flushed huo) = WEnd (huo_fin ff p tld bidi huo labels aps) /\
           concat (fst (walk1 cfg ff p d tld bidi he labels aps seen pte flushed huo)) =
             (if flushed then tailtext seen os else P ++ tailtext seen os)
  | inr s => snd (walk1 cfg ff p d tld bidi he labels aps seen pte flushed huo) = WPanic s
  end.
Print Assumptions C11_walk1_functional.

(* THE SECOND WALK (uts46.rs 925-1026, the ASCII sink of the dual-output mode): same invariant; it writes P ++ the
   per-label outputs of the never-Unicode policy joined by dots, or panics exactly when the encoder fails; the sites
   928, 933, 949, 992 are unreachable. *)
Theorem C11_walk2_functional : forall cfg d he labels aps seen pte flushed P rl,
  length labels = length aps ->
  (flushed = false -> d = P ++ tailtext seen rl /\ len P = pte /\ cover aps rl) ->
  Post2 flushed P (outs cfg is_ascii_l labels aps) seen (walk2 cfg d he labels aps seen pte flushed).
Proof. exact walk2_spec. Qed.
Check C11_walk2_functional : forall cfg d he labels aps seen pte flushed P rl,
  length labels = length aps ->
  (flushed = false -> d = P ++ tailtext seen rl /\ len P = pte /\ cover aps rl) ->
  match outs cfg is_ascii_l labels aps with
  | inl os => snd (walk2 cfg d he labels aps seen pte flushed) = WEnd false /\
              concat (fst (walk2 cfg d he labels aps seen pte flushed)) = (if flushed then tailtext seen os else P ++ tailtext seen os)
  | inr s => snd (walk2 cfg d he labels aps seen pte flushed) = WPanic s
  end.
Print Assumptions C11_walk2_functional.

(* the fail-fast run of process_inner, for EVERY adapter (no rediscovery premise): it takes the early return, or it
   returns exactly what the marking run returns, and that run is error-free *)
Theorem C11_inner_wsim : forall A cfg hy deny d,
  inner_wsim (process_inner A cfg true hy deny d) (process_inner A cfg false hy deny d).
Proof. exact process_inner_wsim. Qed.
Check C11_inner_wsim : forall A cfg hy deny d,
  process_inner A cfg true hy deny d = I_EXIT \/
  match process_inner A cfg false hy deny d with
  | IRes ptu b he db ap => he = false /\ process_inner A cfg true hy deny d = process_inner A cfg false hy deny d
  | IPanic s => process_inner A cfg true hy deny d = process_inner A cfg false hy deny d
  end.
Print Assumptions C11_inner_wsim.

(* THE DUAL-OUTPUT MODE, IN FULL (C11_dual_statement): for every byte string, every deny list the API can build, every
   hyphen mode and every output policy, when process with an ASCII sink (mark-errors mode) reports WroteToSink, the
   Unicode text is what to_user_interface returns for the same arguments (without error), and to_ascii of the same
   name succeeds with the text of the ASCII sink - or, when no label was written as Unicode (the ASCII sink is then
   left empty), with the text of the first sink.  Only premise about the adapter: H0 (sampled by the harness). *)
Theorem C11_dual : forall A cfg, map_normalize A [] = [] -> C11_dual_statement A cfg.
Proof. exact c11_dual_full. Qed.
Check C11_dual : forall A cfg, map_normalize A [] = [] -> forall d deny hy p s a, bytes d -> valid_deny deny ->
  process A cfg false p d deny hy None None true = (PWroteToSink, s, a) ->
  to_user_interface A cfg d deny hy p = UI false s false /\
  exists b, to_ascii A cfg d deny hy DIgnore = Ok (b, match a with [] => s | _ => a end).
Print Assumptions C11_dual.

(* the adapter premise of C11_dual cannot be dropped (same adapter and name as C11_same_verdict_unconditional_refuted) *)
Theorem C11_dual_unconditional_refuted : exists A, forall cfg, ~ C11_dual_statement A cfg.
Proof. exact c11_dual_unconditional_refuted. Qed.
Check C11_dual_unconditional_refuted : exists A, forall cfg, ~ C11_dual_statement A cfg.
Print Assumptions C11_dual_unconditional_refuted.

(* where the two runs of process_inner can differ, exactly: the fail-fast run takes the early return and the marking
   run has set had_errors or appended an AalOther entry to already_punycode (or panicked) - or the two runs return
   the same, error-free result.  Every adapter, no premise. *)
Theorem C11_inner_osim : forall A cfg hy deny d,
  inner_osim (process_inner A cfg true hy deny d) (process_inner A cfg false hy deny d).
Proof. exact process_inner_osim. Qed.
Check C11_inner_osim : forall A cfg hy deny d,
  (process_inner A cfg true hy deny d = I_EXIT /\
   match process_inner A cfg false hy deny d with
   | IRes _ _ he _ ap => he = true \/ In AalOther ap
   | IPanic _ => True
   end) \/
  match process_inner A cfg false hy deny d with
  | IRes ptu b he db ap => he = false /\ process_inner A cfg true hy deny d = process_inner A cfg false hy deny d
  | IPanic s => process_inner A cfg true hy deny d = process_inner A cfg false hy deny d
  end.
Print Assumptions C11_inner_osim.

(* THE PASSTHROUGH OUTCOME, IN FULL (C11_passthrough_statement), for EVERY adapter (no premise): in every mode
   (fail-fast or mark-errors, any policy, any sinks, with or without ASCII sink), outside Known_C11 (finding F-C11-2,
   exactly), Passthrough is returned only for an ASCII input that is its own ToASCII result (to_ascii returns it
   borrowed).  The premise H0 of the other clauses is not needed here: a Passthrough result has no AalOther entry,
   and such a marking run is reproduced by the fail-fast run (C11_inner_osim). *)
Theorem C11_passthrough : forall A cfg, C11_passthrough_statement A cfg.
Proof. exact c11_passthrough_all. Qed.
Check C11_passthrough : forall A cfg ff p d deny hy k1 k2 w s a, bytes d -> valid_deny deny ->
  process A cfg ff p d deny hy k1 k2 w = (PPassthrough, s, a) ->
  Known_C11 A cfg d deny hy = false ->
  ascii d /\ to_ascii A cfg d deny hy DIgnore = Ok (true, d).
Print Assumptions C11_passthrough.

Theorem C11_passthrough_ascii : forall A cfg ff p d deny hy k1 k2 w s a, bytes d ->
  process A cfg ff p d deny hy k1 k2 w = (PPassthrough, s, a) -> ascii d.
Proof. exact passthrough_ascii_input. Qed.
Check C11_passthrough_ascii : forall A cfg ff p d deny hy k1 k2 w s a, bytes d ->
  process A cfg ff p d deny hy k1 k2 w = (PPassthrough, s, a) -> ascii d.
Print Assumptions C11_passthrough_ascii.

(* C11_dual / C11_passthrough: the toy adapter meets H0; a dual-output call that writes both sinks ("bücher.DE"), one
   whose ASCII sink stays empty ("A.b"), and a Passthrough beyond the fastest tier ("1a.xn--bcher-kva") *)
Example C11_dual_premises_hold :
  map_normalize toy [] = [] /\
  process toy true false always_unicode [98; 195; 188; 99; 104; 101; 114; 46; 68; 69] DENY_EMPTY HAllow None None true
    = (PWroteToSink, [98; 252; 99; 104; 101; 114; 46; 100; 101],
       [120; 110; 45; 45; 98; 99; 104; 101; 114; 45; 107; 118; 97; 46; 100; 101]) /\
  process toy true false always_unicode [65; 46; 98] DENY_EMPTY HAllow None None true = (PWroteToSink, [97; 46; 98], []) /\
  process toy true false never_unicode [49; 97; 46; 120; 110; 45; 45; 98; 99; 104; 101; 114; 45; 107; 118; 97] DENY_EMPTY HAllow None None true
    = (PPassthrough, [], []) /\
  Known_C11 toy true [49; 97; 46; 120; 110; 45; 45; 98; 99; 104; 101; 114; 45; 107; 118; 97] DENY_EMPTY HAllow = false.
Proof. vm_compute. repeat split; reflexivity. Qed.

(* non-vacuity: a name with an error (both modes err, U+FFFD shown) and one without, in the model *)
(* regenerated constants used by the marking sites: is_bidi threshold, joiner range, map_transitional table *)
Theorem C11_consts :
  T_IDNA_BIDI_BELOW = 1424 /\ T_IDNA_JOINER_LO = 8204 /\ T_IDNA_JOINER_HI = 8205 /\
  T_IDNA_TRANS = [(223, [115; 115]); (7838, [115; 115]); (962, [963]); (8204, []); (8205, [])].
Proof. exact idna_ranges. Qed.
Check C11_consts :
  T_IDNA_BIDI_BELOW = 1424 /\ T_IDNA_JOINER_LO = 8204 /\ T_IDNA_JOINER_HI = 8205 /\
  T_IDNA_TRANS = [(223, [115; 115]); (7838, [115; 115]); (962, [963]); (8204, []); (8205, [])].
Print Assumptions C11_consts.

Example C11_premises_hold :
  map_normalize toy [] = [] /\ valid_deny DENY_STD3 /\ Known_C11 toy true [97; 45; 46; 98] DENY_STD3 HCheck = false /\
  to_ascii toy true [97; 45; 46; 98] DENY_STD3 HCheck DIgnore = Err /\
  to_unicode toy true [97; 45; 46; 98] DENY_STD3 HCheck = UI false [97; 65533; 46; 98] true /\
  to_ascii toy true [65; 46; 98] DENY_STD3 HCheck DIgnore = Ok (false, [97; 46; 98]).
Proof. split; [reflexivity|]. split; [left; reflexivity|]. vm_compute. repeat split; reflexivity. Qed.
