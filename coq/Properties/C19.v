(* Properties/C19.v - MIME types.  Only statements, closed by `exact`. *)
From RU Require Import Base.Prelude Base.Utf8 Gen.Tables Model.Mime Proofs.C19_Tables.

(* the regenerated IS_HTTP_TOKEN table is exactly the RFC 7230 token set, and the lookup never
   leaves the table for a byte *)
Theorem C19_table : forall b, b < 256 ->
  is_http_token_at b = Ok (is_alnum b || memb b [33; 35; 36; 37; 38; 39; 42; 43; 45; 46; 94; 95; 96; 124; 126]).
Proof. exact is_http_token_at_spec. Qed.
Check C19_table : forall b, b < 256 ->
  is_http_token_at b = Ok (is_alnum b || memb b [33; 35; 36; 37; 38; 39; 42; 43; 45; 46; 94; 95; 96; 124; 126]).
Print Assumptions C19_table.
