(* Properties/C19.v - MIME types.  Only statements, closed by `exact`.
   Vocabulary (Proofs/C19_Tables.v, C19_Normal.v, C19_Pure.v):
     rfc7230_tchar c      = is_alnum c || memb c [!#$%&'*+-.^_`|~]
     lower_http_token s   = s <> [] /\ every c of s: rfc7230_tchar c = true /\ is_upper c = false
     value_wf v           = every code point of v before its first ';' is TAB, 0x20-0x7E or 0x80-0xFF
     usv_mime m           = all strings of m are lists of Unicode scalar values
   A `&str` is a `list N` satisfying usv_list. *)
From RU Require Import Base.Prelude Base.Utf8 Gen.Tables Model.Mime
  Proofs.C19_Tables Proofs.C19_Pure Proofs.C19_Normal Proofs.C19_RT.
From RU Require Spec.MimeSniff Proofs.C17_Mime.

(* the regenerated IS_HTTP_TOKEN table is exactly the RFC 7230 token set, and the lookup never
   leaves the table for a byte *)
Theorem C19_table : forall b, b < 256 ->
  is_http_token_at b = Ok (is_alnum b || memb b [33; 35; 36; 37; 38; 39; 42; 43; 45; 46; 94; 95; 96; 124; 126]).
Proof. exact is_http_token_at_spec. Qed.
Check C19_table : forall b, b < 256 ->
  is_http_token_at b = Ok (is_alnum b || memb b [33; 35; 36; 37; 38; 39; 42; 43; 45; 46; 94; 95; 96; 124; 126]).
Print Assumptions C19_table.

(* the other regenerated character classes: HTTP whitespace, HTTP quoted-string token code points,
   and what Display escapes *)
Theorem C19_classes : forall c,
  http_whitespace c = memb c [9; 10; 13; 32]
  /\ valid_value_char c = ((c =? 9) || ((32 <=? c) && (c <=? 126)) || ((128 <=? c) && (c <=? 255)))
  /\ memb c T_MIME_ESCAPED = ((c =? 34) || (c =? 92)).
Proof. intros c. split; [exact (http_whitespace_spec c)|]. split; [exact (valid_value_char_spec c)|exact (mime_escaped_spec c)]. Qed.
Check C19_classes : forall c,
  http_whitespace c = memb c [9; 10; 13; 32]
  /\ valid_value_char c = ((c =? 9) || ((32 <=? c) && (c <=? 126)) || ((128 <=? c) && (c <=? 255)))
  /\ memb c T_MIME_ESCAPED = ((c =? 34) || (c =? 92)).
Print Assumptions C19_classes.

(* the byte-indexed token test on the UTF-8 encoding is the code-point test (non-ASCII is never a token) *)
Theorem C19_token_bytes : forall s, usv_list s ->
  only_http_token_code_points s = Ok (forallb rfc7230_tchar s).
Proof. exact only_tok_spec. Qed.
Check C19_token_bytes : forall s, usv_list s ->
  only_http_token_code_points s = Ok (forallb rfc7230_tchar s).
Print Assumptions C19_token_bytes.

(* round trip: the serialization of every parse result parses to the same type, subtype and parameter list *)
Theorem C19_rt : forall s m, usv_list s -> parse s = Ok (Some m) ->
  exists d, display m = Ok d /\ parse d = Ok (Some m).
Proof. exact parse_display_rt. Qed.
Check C19_rt : forall s m, usv_list s -> parse s = Ok (Some m) ->
  exists d, display m = Ok d /\ parse d = Ok (Some m).
Print Assumptions C19_rt.

(* the normal form is also sufficient: every value in normal form (parser-made or not) round-trips *)
Theorem C19_rt_wf : forall m, usv_mime m ->
  lower_http_token (m_type m) -> lower_http_token (m_subtype m) ->
  Forall (fun p => lower_http_token (fst p) /\ value_wf (snd p)) (m_params m) ->
  NoDup (map fst (m_params m)) ->
  exists d, display m = Ok d /\ parse d = Ok (Some m).
Proof. exact display_parse_wf. Qed.
Check C19_rt_wf : forall m, usv_mime m ->
  lower_http_token (m_type m) -> lower_http_token (m_subtype m) ->
  Forall (fun p => lower_http_token (fst p) /\ value_wf (snd p)) (m_params m) ->
  NoDup (map fst (m_params m)) ->
  exists d, display m = Ok d /\ parse d = Ok (Some m).
Print Assumptions C19_rt_wf.

(* normal form of every parse result *)
Theorem C19_normal : forall s m, usv_list s -> parse s = Ok (Some m) ->
  lower_http_token (m_type m) /\ lower_http_token (m_subtype m)
  /\ Forall (fun p => lower_http_token (fst p) /\ value_wf (snd p)) (m_params m)
  /\ NoDup (map fst (m_params m)).
Proof. exact parse_normal. Qed.
Check C19_normal : forall s m, usv_list s -> parse s = Ok (Some m) ->
  lower_http_token (m_type m) /\ lower_http_token (m_subtype m)
  /\ Forall (fun p => lower_http_token (fst p) /\ value_wf (snd p)) (m_params m)
  /\ NoDup (map fst (m_params m)).
Print Assumptions C19_normal.

(* parsing never panics (and the loop fuel of the model never runs out); serializing a value made of
   strings never panics *)
Theorem C19_total :
  (forall s, usv_list s -> exists r, parse s = Ok r)
  /\ (forall m, usv_mime m -> exists d, display m = Ok d).
Proof. split; [exact parse_total|exact display_total]. Qed.
Check C19_total :
  (forall s, usv_list s -> exists r, parse s = Ok r)
  /\ (forall m, usv_mime m -> exists d, display m = Ok d).
Print Assumptions C19_total.

(* get_parameter returns exactly the pairs of the parameter list of a parse result *)
Theorem C19_get : forall s m n v, usv_list s -> parse s = Ok (Some m) ->
  (In (n, v) (m_params m) <-> get_parameter (m_params m) n = Some v).
Proof.
  intros s m n v Hs H.
  exact (get_parameter_in (m_params m) (proj2 (proj2 (proj2 (parse_normal s m Hs H)))) n v).
Qed.
Check C19_get : forall s m n v, usv_list s -> parse s = Ok (Some m) ->
  (In (n, v) (m_params m) <-> get_parameter (m_params m) n = Some v).
Print Assumptions C19_get.

(* conformance: on every string of HTTP quoted-string token code points (TAB, 0x20-0x7E, 0x80-0xFF - finding
   F-C19-2 needs a code point outside) Mime::from_str IS the MIME Sniffing Standard's "parse a MIME type"
   (Spec/MimeSniff.v, validated against the vendored WPT mime-types vectors); proved for C17 in
   Proofs/C17_Mime.v by a simulation between the crate's split-at-';' parser and the Standard's position loop *)
Theorem C19_spec_equiv : forall t, Forall (fun c => MimeSniff.http_quoted_string_token_cp c = true) t ->
  parse t = Ok (option_map (fun r => mk_mime (MimeSniff.mt_type r) (MimeSniff.mt_subtype r) (MimeSniff.mt_parameters r))
                           (MimeSniff.parse_a_mime_type t)).
Proof. exact C17_Mime.mime_parse_equiv. Qed.
Check C19_spec_equiv : forall t, Forall (fun c => MimeSniff.http_quoted_string_token_cp c = true) t ->
  parse t = Ok (option_map (fun r => mk_mime (MimeSniff.mt_type r) (MimeSniff.mt_subtype r) (MimeSniff.mt_parameters r))
                           (MimeSniff.parse_a_mime_type t)).
Print Assumptions C19_spec_equiv.

(* non-vacuity: `TEXT/Plain ;A=1;a=2;x="p;\"q\\";y=` parses (the duplicate `a` and the empty `y`
   are dropped, the quoted value is unescaped across the ';'), its serialization
   `text/plain;a=1;x="p;\"q\\"` parses to the same value; `text/plain;A=1;A=2` (F-C19-1, fixed)
   has one parameter; a non-ASCII type is rejected without a panic; the two F-C19-2 witnesses. *)
Example C19_premises_hold :
  let s := [84;69;88;84;47;80;108;97;105;110;32;59;65;61;49;59;97;61;50;59;120;61;34;112;59;92;34;113;92;92;34;59;121;61] in
  let m := mk_mime [116;101;120;116] [112;108;97;105;110] [([97], [49]); ([120], [112;59;34;113;92])] in
  let d := [116;101;120;116;47;112;108;97;105;110;59;97;61;49;59;120;61;34;112;59;92;34;113;92;92;34] in
  usv_list s /\ parse s = Ok (Some m) /\ display m = Ok d /\ parse d = Ok (Some m)
  /\ parse [116;101;120;116;47;112;108;97;105;110;59;65;61;49;59;65;61;50]
     = Ok (Some (mk_mime [116;101;120;116] [112;108;97;105;110] [([97], [49])]))
  /\ parse [233; 47; 98] = Ok None
  (* F-C19-2 (not a clause of C19; recorded for C17): valid_value looks at the raw first ';'-piece of a
     quoted value only - `a/b;x="a;<U+0001>"` keeps the control character, `a/b;x="a"<U+0001>` loses x *)
  /\ parse [97;47;98;59;120;61;34;97;59;1;34] = Ok (Some (mk_mime [97] [98] [([120], [97;59;1])]))
  /\ parse [97;47;98;59;120;61;34;97;34;1] = Ok (Some (mk_mime [97] [98] [])).
Proof.
  cbv zeta. split; [|vm_compute; repeat split].
  repeat constructor; unfold is_usv; lia.
Qed.
