(* Properties/C13.v - Punycode.  Only statements, closed by `exact`. *)
From RU Require Import Base.Prelude Base.Utf8 Base.U32_c13 Gen.Tables Model.Punycode Proofs.C13_Ascii.

(* the regenerated Bootstring parameters are those of RFC 3492 section 5 *)
Theorem C13_consts :
  BASE = 36 /\ T_MIN = 1 /\ T_MAX = 26 /\ SKEW = 38 /\ DAMP = 700 /\ INITIAL_BIAS = 72 /\ INITIAL_N = 128.
Proof. exact consts_are_rfc3492. Qed.
Check C13_consts :
  BASE = 36 /\ T_MIN = 1 /\ T_MAX = 26 /\ SKEW = 38 /\ DAMP = 700 /\ INITIAL_BIAS = 72 /\ INITIAL_N = 128.
Print Assumptions C13_consts.

(* encoder output is ASCII: every entry point, both caller kinds, both configurations *)
Theorem C13_ascii : forall cfg s p,
  (encode cfg s = Ok p -> ascii p) /\ (encode_str cfg s = Ok p -> ascii p) /\ (encode_internal cfg s = Ok p -> ascii p).
Proof. intros cfg s p. repeat split; [exact (encode_ascii cfg s p)|exact (encode_str_ascii cfg s p)|exact (encode_into_ascii cfg false s p)]. Qed.
Check C13_ascii : forall cfg s p,
  (encode cfg s = Ok p -> ascii p) /\ (encode_str cfg s = Ok p -> ascii p) /\ (encode_internal cfg s = Ok p -> ascii p).
Print Assumptions C13_ascii.

(* value_to_digit and digit are inverse on 0..35, for both code-unit types *)
Theorem C13_digits : forall v c, value_to_digit v = Ok c -> digit_u8 c = Some v /\ digit_char c = Some v.
Proof. exact digit_of_value. Qed.
Check C13_digits : forall v c, value_to_digit v = Ok c -> digit_u8 c = Some v /\ digit_char c = Some v.
Print Assumptions C13_digits.

(* non-vacuity: RFC 3492 section 7.1 sample (L) and a round trip, computed in the model *)
Example C13_premises_hold :
  encode true [51; 24180; 66; 32068; 37329; 20843; 20808; 29983] = Ok [51; 66; 45; 119; 119; 52; 99; 53; 101; 49; 56; 48; 101; 53; 55; 53; 97; 54; 53; 108; 115; 121; 50; 98]
  /\ decode true [51; 66; 45; 119; 119; 52; 99; 53; 101; 49; 56; 48; 101; 53; 55; 53; 97; 54; 53; 108; 115; 121; 50; 98] = Ok [51; 24180; 66; 32068; 37329; 20843; 20808; 29983].
Proof. vm_compute. split; reflexivity. Qed.
