(* Properties/C13.v - Punycode.  Only statements, closed by `exact`.
   Results of the model are `res`: Ok v | Err | Panic line; the public functions' None is Err.
   cfg = true: overflow checks compiled in (cargo dev profile); cfg = false: wrapping (release). *)
From RU Require Import Base.Prelude Base.Utf8 Base.U32_c13 Gen.Tables Model.Punycode Spec.Rfc3492
  Proofs.C13_Ascii Proofs.C13_Bounds Proofs.C13_Enc Proofs.C13_Dec Proofs.C13_Known Proofs.C13_Vli Proofs.C13_Rt Proofs.C13_Main
  Proofs.C13_DecB Proofs.C13_RtB Proofs.C13_DecEnc Proofs.C13_Small
  Proofs.C13_Mono Proofs.C13_Parse Proofs.C13_EncDecB Proofs.C13_EncDec.

(* the regenerated Bootstring parameters are those of RFC 3492 section 5 *)
Theorem C13_consts :
  BASE = 36 /\ T_MIN = 1 /\ T_MAX = 26 /\ SKEW = 38 /\ DAMP = 700 /\ INITIAL_BIAS = 72 /\ INITIAL_N = 128.
Proof. exact consts_are_rfc3492. Qed.
Check C13_consts :
  BASE = 36 /\ T_MIN = 1 /\ T_MAX = 26 /\ SKEW = 38 /\ DAMP = 700 /\ INITIAL_BIAS = 72 /\ INITIAL_N = 128.
Print Assumptions C13_consts.

(* the regenerated digit tables: value_to_digit and digit are inverse on 0..35, for both code-unit types *)
Theorem C13_digits : forall v c, value_to_digit v = Ok c -> digit_u8 c = Some v /\ digit_char c = Some v.
Proof. exact digit_of_value. Qed.
Check C13_digits : forall v c, value_to_digit v = Ok c -> digit_u8 c = Some v /\ digit_char c = Some v.
Print Assumptions C13_digits.

(* encoder output is ASCII: every entry point, both caller kinds, both configurations *)
Theorem C13_ascii : forall cfg s p,
  (encode cfg s = Ok p -> ascii p) /\ (encode_str cfg s = Ok p -> ascii p) /\ (encode_internal cfg s = Ok p -> ascii p).
Proof. intros cfg s p. repeat split; [exact (encode_ascii cfg s p)|exact (encode_str_ascii cfg s p)|exact (encode_into_ascii cfg false s p)]. Qed.
Check C13_ascii : forall cfg s p,
  (encode cfg s = Ok p -> ascii p) /\ (encode_str cfg s = Ok p -> ascii p) /\ (encode_internal cfg s = Ok p -> ascii p).
Print Assumptions C13_ascii.

(* never a panic, never a wrong answer: in both configurations the public encoders return None or the
   RFC 3492 result over unbounded integers (for EVERY input list, so in particular they do not panic);
   the public decoders, on inputs outside the class of finding F-C13-2 (2^32 code units or more), do
   not panic, their iterator terminates, and a Some result is the unbounded RFC 3492 result *)
Theorem C13_safe : forall cfg,
  (forall s, (encode cfg s = Err \/ encode cfg s = Ok (s_encode s))
             /\ (encode_str cfg s = Err \/ encode_str cfg s = Ok (s_encode s)))
  /\ (forall p, ~ Known_C13_2 p ->
        (forall site, decode cfg p <> Panic site) /\ (forall site, decode_to_string cfg p <> Panic site)
        /\ (forall s, decode cfg p = Ok s -> s_decode p = Some s)
        /\ (forall s, decode_to_string cfg p = Ok s -> s_decode p = Some s)).
Proof. exact safe_main. Qed.
Check C13_safe : forall cfg,
  (forall s, (encode cfg s = Err \/ encode cfg s = Ok (s_encode s))
             /\ (encode_str cfg s = Err \/ encode_str cfg s = Ok (s_encode s)))
  /\ (forall p, ~ Known_C13_2 p ->
        (forall site, decode cfg p <> Panic site) /\ (forall site, decode_to_string cfg p <> Panic site)
        /\ (forall s, decode cfg p = Ok s -> s_decode p = Some s)
        /\ (forall s, decode_to_string cfg p = Ok s -> s_decode p = Some s)).
Print Assumptions C13_safe.

(* the crate-internal decoder instantiations (u8 and char code units, internal caller) do not panic either *)
Theorem C13_safe_internal_decoder : forall cfg it p, ~ Known_C13_2 p -> forall site, decode_with cfg it p <> Panic site.
Proof. exact internal_decoder_no_panic. Qed.
Check C13_safe_internal_decoder : forall cfg it p, ~ Known_C13_2 p -> forall site, decode_with cfg it p <> Panic site.
Print Assumptions C13_safe_internal_decoder.

(* finding F-C13-2: a decoder input with 2^32 - 1 basic code units panics, in both configurations *)
Theorem C13_2_refuted : exists p, Known_C13_2 p /\ ascii p /\ forall cfg, exists site, decode cfg p = Panic site.
Proof. exact c13_2_refuted. Qed.
Check C13_2_refuted : exists p, Known_C13_2 p /\ ascii p /\ forall cfg, exists site, decode cfg p = Panic site.
Print Assumptions C13_2_refuted.

(* the unchecked internal-caller encoder equals the checked one up to 1000 scalars: no wrap, no
   debug-build overflow panic, and both succeed with the RFC 3492 result *)
Theorem C13_internal : forall cfg s, usv_list s -> (length s <= 1000)%nat ->
  encode_internal cfg s = encode cfg s /\ encode cfg s = Ok (s_encode s).
Proof. exact internal_main. Qed.
Check C13_internal : forall cfg s, usv_list s -> (length s <= 1000)%nat ->
  encode_internal cfg s = encode cfg s /\ encode cfg s = Ok (s_encode s).
Print Assumptions C13_internal.

(* finding F-C13-1: s = U+0080 x 3856 ++ [U+10FE4F] is in the class, encodes, and does not decode *)
Theorem C13_1_refuted :
  exists s, usv_list s /\ Known_C13 s /\
    forall cfg, exists p, encode cfg s = Ok p /\ decode cfg p = Err /\ decode cfg p <> Ok s.
Proof. exact c13_1_refuted. Qed.
Check C13_1_refuted :
  exists s, usv_list s /\ Known_C13 s /\
    forall cfg, exists p, encode cfg s = Ok p /\ decode cfg p = Err /\ decode cfg p <> Ok s.
Print Assumptions C13_1_refuted.

(* ---- the round trips: full statements kept, partial results proved ---- *)
Definition C13_dec_enc_statement : Prop :=
  forall cfg s p, usv_list s -> encode cfg s = Ok p -> ~ Known_C13 s -> decode cfg p = Ok s.
Definition C13_dec_enc_small_statement : Prop :=
  forall cfg s p, usv_list s -> (length s <= 3854)%nat -> encode cfg s = Ok p -> decode cfg p = Ok s.
Definition C13_enc_dec_statement : Prop :=
  forall cfg p s, ~ Known_C13_2 p -> decode cfg p = Ok s -> has_non_ascii s = true ->
    exists q, encode cfg s = Ok q /\ eq_upto_digit_case q p.

(* step (2): Bootstring over unbounded integers (Spec/Rfc3492) is invertible on every sequence of scalar values *)
Theorem C13_spec_round_trip : forall s, usv_list s -> s_decode (s_encode s) = Some s.
Proof. exact s_round_trip. Qed.
Check C13_spec_round_trip : forall s, usv_list s -> s_decode (s_encode s) = Some s.
Print Assumptions C13_spec_round_trip.

(* decode (encode s) is s or None - never another string, never a panic (p shorter than 2^32, which
   holds e.g. for every s of fewer than 2^32 / 8 scalars) *)
Theorem C13_dec_enc_partial : forall cfg s p, usv_list s -> encode cfg s = Ok p -> ~ Known_C13_2 p ->
  p = s_encode s /\ s_decode p = Some s /\ (decode cfg p = Ok s \/ decode cfg p = Err).
Proof. exact dec_enc_partial. Qed.
Check C13_dec_enc_partial : forall cfg s p, usv_list s -> encode cfg s = Ok p -> ~ Known_C13_2 p ->
  p = s_encode s /\ s_decode p = Some s /\ (decode cfg p = Ok s \/ decode cfg p = Err).
Print Assumptions C13_dec_enc_partial.

(* decode (encode s) = s, full statement: for every sequence of scalar values whose encoding is produced and
   which is outside the class of finding F-C13-1, in both configurations (no length hypothesis: the decoder's
   `base_len as u32` and `length + 1` cannot overflow on an encoder output, whose basic part is shorter than 2^32) *)
Theorem C13_dec_enc : C13_dec_enc_statement.
Proof. exact dec_enc_main. Qed.
Check C13_dec_enc : forall cfg s p, usv_list s -> encode cfg s = Ok p -> ~ Known_C13 s -> decode cfg p = Ok s.
Print Assumptions C13_dec_enc.

(* no exclusion at all up to 3854 scalars - and in fact up to 3855 (the witness of F-C13-1 has 3857) *)
Theorem C13_dec_enc_small : C13_dec_enc_small_statement.
Proof. exact dec_enc_small. Qed.
Check C13_dec_enc_small : forall cfg s p, usv_list s -> (length s <= 3854)%nat -> encode cfg s = Ok p -> decode cfg p = Ok s.
Print Assumptions C13_dec_enc_small.

Theorem C13_dec_enc_small_3855 : forall cfg s p, usv_list s -> (length s <= 3855)%nat -> encode cfg s = Ok p -> decode cfg p = Ok s.
Proof. exact dec_enc_small_3855. Qed.
Check C13_dec_enc_small_3855 : forall cfg s p, usv_list s -> (length s <= 3855)%nat -> encode cfg s = Ok p -> decode cfg p = Ok s.
Print Assumptions C13_dec_enc_small_3855.

(* the ingredients: the bias never exceeds 215 while deltas fit in 32 bits; a successful run of the RFC 3492
   decoder with the 32-bit checks written out (b_dec_loop) is a successful run of the model's decoder *)
Theorem C13_bias_bound : forall d np first, d <= U32_MAX -> s_adapt d np first <= 215.
Proof. exact s_adapt_le. Qed.
Check C13_bias_bound : forall d np first, d <= U32_MAX -> s_adapt d np first <= 215.
Print Assumptions C13_bias_bound.

Theorem C13_decoder_complete : forall cfg p base rest out',
  s_split p = (base, rest) -> forallb (fun c => c <? 128) base = true -> len base <= U32_MAX ->
  b_dec_loop digit_u8 rest false 0 1 s_base 0 s_initial_n s_initial_bias base = Some out' ->
  decode cfg p = Ok out'.
Proof. exact decode_complete. Qed.
Check C13_decoder_complete : forall cfg p base rest out',
  s_split p = (base, rest) -> forallb (fun c => c <? 128) base = true -> len base <= U32_MAX ->
  b_dec_loop digit_u8 rest false 0 1 s_base 0 s_initial_n s_initial_bias base = Some out' ->
  decode cfg p = Ok out'.
Print Assumptions C13_decoder_complete.

(* both directions of encode (decode p) are the unbounded algorithms *)
Theorem C13_enc_dec_partial : forall cfg p s q, ~ Known_C13_2 p ->
  decode cfg p = Ok s -> encode cfg s = Ok q -> s_decode p = Some s /\ q = s_encode s /\ ascii q.
Proof. exact enc_dec_partial. Qed.
Check C13_enc_dec_partial : forall cfg p s q, ~ Known_C13_2 p ->
  decode cfg p = Ok s -> encode cfg s = Ok q -> s_decode p = Some s /\ q = s_encode s /\ ascii q.
Print Assumptions C13_enc_dec_partial.

(* encode (decode p) = p up to the case of the digits, full statement: the u32 encoder does not overflow on
   what the u32 decoder produced, and it writes the basic part of p, the delimiter, and the digits of p in lower case *)
Theorem C13_enc_dec : C13_enc_dec_statement.
Proof. exact enc_dec_main. Qed.
Check C13_enc_dec : forall cfg p s, ~ Known_C13_2 p -> decode cfg p = Ok s -> has_non_ascii s = true ->
  exists q, encode cfg s = Ok q /\ eq_upto_digit_case q p.
Print Assumptions C13_enc_dec.

(* the same without the hypothesis that s has a non-ASCII scalar (an all-ASCII s comes from p = s ++ "-" or p = "") *)
Theorem C13_enc_dec_all : forall cfg p s, ~ Known_C13_2 p -> decode cfg p = Ok s ->
  exists q, encode cfg s = Ok q /\ eq_upto_digit_case q p.
Proof. exact enc_dec_all. Qed.
Check C13_enc_dec_all : forall cfg p s, ~ Known_C13_2 p -> decode cfg p = Ok s ->
  exists q, encode cfg s = Ok q /\ eq_upto_digit_case q p.
Print Assumptions C13_enc_dec_all.

(* uniqueness of the generalized variable-length integers: whatever digits the decoder accepts for one delta q are,
   in lower case, the digits the encoder writes for q *)
Theorem C13_vli_unique : forall R mid oldi w k i n bias out s, R <> [] ->
  b_dec_loop digit_u8 R mid oldi w k i n bias out = Some s ->
  exists q D R', R = D ++ R'
    /\ (forall f, q < 2 ^ N.of_nat f -> map to_lower D = s_enc_vli (S f) q k bias)
    /\ i + q * w <= U32_MAX
    /\ b_dec_break (b_dec_loop digit_u8) R' oldi (i + q * w) n bias out = Some s.
Proof. exact (vli_parse digit_u8 digit_u8_lower). Qed.
Check C13_vli_unique : forall R mid oldi w k i n bias out s, R <> [] ->
  b_dec_loop digit_u8 R mid oldi w k i n bias out = Some s ->
  exists q D R', R = D ++ R'
    /\ (forall f, q < 2 ^ N.of_nat f -> map to_lower D = s_enc_vli (S f) q k bias)
    /\ i + q * w <= U32_MAX
    /\ b_dec_break (b_dec_loop digit_u8) R' oldi (i + q * w) n bias out = Some s.
Print Assumptions C13_vli_unique.

(* the <n, i> monotonicity of the decoder: of the final string, what lies below the current n is already in the
   output, and so is the prefix of length i of what lies at or below n *)
Theorem C13_decoder_monotone : forall R mid oldi w k i n bias out s,
  all_le n out -> b_dec_loop digit_u8 R mid oldi w k i n bias out = Some s ->
  (forall c, c < n -> filter (le_m c) s = filter (le_m c) out)
  /\ (forall A B, out = A ++ B -> len A <= i -> exists B', filter (le_m n) s = A ++ B').
Proof. exact (b_mono digit_u8). Qed.
Check C13_decoder_monotone : forall R mid oldi w k i n bias out s,
  all_le n out -> b_dec_loop digit_u8 R mid oldi w k i n bias out = Some s ->
  (forall c, c < n -> filter (le_m c) s = filter (le_m c) out)
  /\ (forall A B, out = A ++ B -> len A <= i -> exists B', filter (le_m n) s = A ++ B').
Print Assumptions C13_decoder_monotone.

(* step (1) of the round trip: the unbounded decoder reads the variable-length integer the encoder writes
   for q under the same bias and arrives at i + q * w at the end of that delta *)
Theorem C13_vli_partial : forall q k bias w i rest mid oldi n out,
  s_dec_loop s_digit_value (s_enc_vli (s_vli_fuel q) q k bias ++ rest) mid oldi w k i n bias out
  = s_dec_break s_digit_value rest oldi (i + q * w) n bias out.
Proof. exact vli_round_trip. Qed.
Check C13_vli_partial : forall q k bias w i rest mid oldi n out,
  s_dec_loop s_digit_value (s_enc_vli (s_vli_fuel q) q k bias ++ rest) mid oldi w k i n bias out
  = s_dec_break s_digit_value rest oldi (i + q * w) n bias out.
Print Assumptions C13_vli_partial.

(* step (4): the insertion list with index shifting, sorted, read by the Decode iterator, is direct insertion *)
Theorem C13_insertions : forall it base ins out i c,
  Rep it base (sort_by_key ins) 0 out -> i <= len out ->
  Rep it base (sort_by_key (shift_ins i ins ++ [(i, c)])) 0 (s_insert_at i c out)
  /\ decode_collect it (sort_by_key ins) base 0 = Ok out.
Proof. exact insertions_main. Qed.
Check C13_insertions : forall it base ins out i c,
  Rep it base (sort_by_key ins) 0 out -> i <= len out ->
  Rep it base (sort_by_key (shift_ins i ins ++ [(i, c)])) 0 (s_insert_at i c out)
  /\ decode_collect it (sort_by_key ins) base 0 = Ok out.
Print Assumptions C13_insertions.

(* both round trips, computed in the kernel for every sequence of length <= 4 over the class alphabets *)
Theorem C13_small_scope :
  forallb rt_enc_check (all_seqs [97; 45; 128; 252; 256; 65535; 65536; 1114111] 4) = true /\
  forallb rt_dec_check (all_seqs [97; 122; 65; 48; 57; 45; 33] 4) = true.
Proof. exact small_scope_round_trips. Qed.
Print Assumptions C13_small_scope.

(* non-vacuity: RFC 3492 section 7.1 sample (L) both ways; the witness of F-C13-1 has 3857 scalars and
   its encoding 3866 bytes; its shorter neighbour is outside the class *)
Example C13_premises_hold :
  encode true [51; 24180; 66; 32068; 37329; 20843; 20808; 29983] = Ok [51; 66; 45; 119; 119; 52; 99; 53; 101; 49; 56; 48; 101; 53; 55; 53; 97; 54; 53; 108; 115; 121; 50; 98]
  /\ decode true [51; 66; 45; 119; 119; 52; 99; 53; 101; 49; 56; 48; 101; 53; 55; 53; 97; 54; 53; 108; 115; 121; 50; 98] = Ok [51; 24180; 66; 32068; 37329; 20843; 20808; 29983]
  /\ s_decode (s_encode [51; 24180; 66; 32068; 37329; 20843; 20808; 29983]) = Some [51; 24180; 66; 32068; 37329; 20843; 20808; 29983]
  /\ known_c13 (repeat 128 3855 ++ [1113679]) = false.
Proof. vm_compute. repeat split; reflexivity. Qed.

(* the hypotheses of C13_dec_enc are met by the RFC sample (L) and by the 3856-scalar neighbour of the witness
   (beyond the range of C13_dec_enc_small_3855) *)
Example C13_dec_enc_premises_hold :
  (usv_list [51; 24180; 66; 32068; 37329; 20843; 20808; 29983] /\ ~ Known_C13 [51; 24180; 66; 32068; 37329; 20843; 20808; 29983])
  /\ (usv_list (repeat 128 3855 ++ [1113679]) /\ ~ Known_C13 (repeat 128 3855 ++ [1113679])
      /\ is_ok (encode true (repeat 128 3855 ++ [1113679])) = true /\ length (repeat 128 3855 ++ [1113679]) = 3856%nat).
Proof.
  split; [split|split; [|split; [|split]]].
  - apply usv_list_forallb. vm_compute. reflexivity.
  - unfold Known_C13. vm_compute. discriminate.
  - apply usv_list_forallb. vm_compute. reflexivity.
  - unfold Known_C13. vm_compute. discriminate.
  - vm_compute. reflexivity.
  - vm_compute. reflexivity.
Qed.

(* the hypotheses of C13_enc_dec are met by sample (L) written with upper-case digits; the theorem's q is then
   the lower-case spelling *)
Example C13_enc_dec_premises_hold :
  ~ Known_C13_2 [51; 66; 45; 87; 87; 52; 67; 53; 69; 49; 56; 48; 69; 53; 55; 53; 65; 54; 53; 76; 83; 89; 50; 66]
  /\ decode true [51; 66; 45; 87; 87; 52; 67; 53; 69; 49; 56; 48; 69; 53; 55; 53; 65; 54; 53; 76; 83; 89; 50; 66]
     = Ok [51; 24180; 66; 32068; 37329; 20843; 20808; 29983]
  /\ has_non_ascii [51; 24180; 66; 32068; 37329; 20843; 20808; 29983] = true
  /\ lower_digits [51; 66; 45; 87; 87; 52; 67; 53; 69; 49; 56; 48; 69; 53; 55; 53; 65; 54; 53; 76; 83; 89; 50; 66]
     = [51; 66; 45; 119; 119; 52; 99; 53; 101; 49; 56; 48; 101; 53; 55; 53; 97; 54; 53; 108; 115; 121; 50; 98].
Proof.
  split; [|vm_compute; repeat split; reflexivity].
  unfold Known_C13_2. vm_compute. discriminate.
Qed.
