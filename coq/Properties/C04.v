(* Properties/C04.v - total, panic-free, linear-time public API.  Only statements, closed by `exact`.
   C04 is the aggregation property: the panic-freedom theorems of the other properties are collected
   here per crate group (re-stated on the model's panic outcome), the missing ones are added, every
   audited unsafe site gets its UTF-8 theorem, the loop functions get step-count (cost) theorems, and
   the inventory theorems tie the whole to the shape of the source tree.
   Unproved full-strength statements are kept as Definitions (…_statement); see theorem_notes in
   tools/props_d/C04.py.  Modules whose names clash (Ok / Err / Panic, decode, parse, position) are
   required without import and used with qualified names. *)
From RU Require Import Base.Prelude Base.Utf8 Model.AsciiSet Gen.Tables Model.PercentEncoding
  Model.HostT Model.UrlRecord Model.Parser Model.WF Model.Cost Model.UnsafeSites.
From RU Require Base.U32_c13 Base.Outcome_c15 Model.Punycode Model.FormUrlencoded Model.Base64 Model.Mime
  Model.Host Model.Setters Model.Uts46 Model.FilePath Model.Origin.
From RU Require Proofs.C04_Inventory Proofs.C04_Cost Proofs.C04_CostPath Proofs.C04_Parse Proofs.C04_PathTotal
  Proofs.C04_ParseTotal Proofs.C04_PathFile Proofs.C04_ParseFile Proofs.C06_List Proofs.C04_Utf8
  Proofs.C04_NoPanic Proofs.C04_Puny Proofs.C13_Known Proofs.C15_Main Proofs.C15_Ser Proofs.C09_Reject
  Proofs.C06_Main Proofs.C03_WF Proofs.C02_PathL1 Proofs.Idna_Api Proofs.Idna_Hyp Proofs.Idna_Known
  Proofs.C04_PathCtx Proofs.C04_SetPath Proofs.C04_SetHost Proofs.C04_ParseFile7 Proofs.C06_Host
  Proofs.C04_Uts46_Inner Proofs.C04_Uts46_Api Proofs.Idna_C10_Inner.
From RU Require Properties.C03 Properties.C06 Properties.C09 Properties.C10 Properties.C11 Properties.C13
  Properties.C14 Properties.C15 Properties.C16 Properties.C18 Properties.C19 Properties.C20.

(* ================================================================== 1. inventory *)
(* the regenerated lists of public functions, unsafe sites and panic-macro sites of the five crates
   are exactly the audited ones: a new `pub fn`, `unsafe` block or panic!/assert! breaks this theorem *)
Theorem C04_inventory :
  T_C04_API = C04_Inventory.api_bytes /\ T_C04_UNSAFE = C04_Inventory.unsafe_bytes
  /\ T_C04_PANICS = C04_Inventory.panic_bytes
  /\ length C04_Inventory.modelled_api = 167%nat /\ length C04_Inventory.audited_unsafe_sites = 22%nat
  /\ length C04_Inventory.audited_panic_sites = 50%nat.
Proof.
  exact (conj C04_Inventory.inventory_api (conj C04_Inventory.inventory_unsafe
        (conj C04_Inventory.inventory_panics C04_Inventory.inventory_sizes))).
Qed.
Check C04_inventory :
  T_C04_API = C04_Inventory.api_bytes /\ T_C04_UNSAFE = C04_Inventory.unsafe_bytes
  /\ T_C04_PANICS = C04_Inventory.panic_bytes
  /\ length C04_Inventory.modelled_api = 167%nat /\ length C04_Inventory.audited_unsafe_sites = 22%nat
  /\ length C04_Inventory.audited_panic_sites = 50%nat.
Print Assumptions C04_inventory.

(* ================================================================== 2. no panic, per crate group *)
(* percent_encoding: the table slice of percent_encode_byte is in range for every u8; the mask index of
   contains / add / remove is in range for ASCII bytes and should_percent_encode never asks about others;
   add / remove panic EXACTLY for bytes >= 0x80 (finding F-C04-4 / F-C14-1).  The iterators (pe_next,
   decode, pd_cow, if_any) have no panic outcome in their types. *)
Theorem C04_no_panic_percent_encoding :
  (forall b, is_byte b -> (N.to_nat (b * T_ENC_STRIDE) + N.to_nat T_ENC_WIDTH <= length T_ENC_TABLE)%nat)
  /\ (forall s b, b < 128 -> aset_contains_o s b <> None /\ aset_add_o s b <> None /\ aset_remove_o s b <> None)
  /\ (forall s b, (128 <=? b) = true \/ aset_contains_o s b <> None)
  /\ (forall s x, aset_add_o s x = None <-> 128 <= x).
Proof.
  exact (conj C04_NoPanic.enc_table_slice_in_range (conj C04_NoPanic.aset_ops_no_panic
        (conj C04_NoPanic.should_encode_no_panic C14.C14_add_panics_iff))).
Qed.
Check C04_no_panic_percent_encoding :
  (forall b, is_byte b -> (N.to_nat (b * T_ENC_STRIDE) + N.to_nat T_ENC_WIDTH <= length T_ENC_TABLE)%nat)
  /\ (forall s b, b < 128 -> aset_contains_o s b <> None /\ aset_add_o s b <> None /\ aset_remove_o s b <> None)
  /\ (forall s b, (128 <=? b) = true \/ aset_contains_o s b <> None)
  /\ (forall s x, aset_add_o s x = None <-> 128 <= x).
Print Assumptions C04_no_panic_percent_encoding.

(* form_urlencoded: parsing is total (no fuel exhaustion), byte_serialize is total, and a serializer
   session panics only inside the documented classes (for_suffix past the end, use after finish) or
   inside Known_C15_1 (finding F-C15-1: start inside a character, then clear()) *)
Theorem C04_no_panic_form_urlencoded :
  (forall bs, FormUrlencoded.parse_next bs <> FormUrlencoded.PFuel
              /\ FormUrlencoded.parse bs = Some (C15_Parse.parse_spec bs)
              /\ exists cs, FormUrlencoded.bser_chunks bs = Outcome_c15.Ok cs)
  /\ (forall target start ops, Forall C15_Ser.op_ok ops -> start <= nlen target ->
        ~ C15_Main.Known_C15_1 target start ops ->
        exists result, C15_Main.str_session target start ops = Outcome_c15.Ok result).
Proof.
  split.
  - intros bs. destruct (C15.C15_views bs) as (H1 & _ & (cs & H3 & _) & _).
    destruct (C15.C15_total bs [] []) as (H4 & _).
    split; [exact H1|]. split; [exact H4|]. exists cs. exact H3.
  - intros target start ops Ho Hs Hk. destruct (C15.C15_suffix target start ops Ho Hs Hk) as (r & Hr & _).
    exists r. exact Hr.
Qed.
Check C04_no_panic_form_urlencoded :
  (forall bs, FormUrlencoded.parse_next bs <> FormUrlencoded.PFuel
              /\ FormUrlencoded.parse bs = Some (C15_Parse.parse_spec bs)
              /\ exists cs, FormUrlencoded.bser_chunks bs = Outcome_c15.Ok cs)
  /\ (forall target start ops, Forall C15_Ser.op_ok ops -> start <= nlen target ->
        ~ C15_Main.Known_C15_1 target start ops ->
        exists result, C15_Main.str_session target start ops = Outcome_c15.Ok result).
Print Assumptions C04_no_panic_form_urlencoded.

(* data-url: the slice-panic outcome of the body decoders is unreachable for EVERY sink; the base64
   decoder has no panic outcome (saturating padding counter); MIME parsing and display are total *)
Theorem C04_no_panic_data_url :
  (forall (W E : Type) (write : W -> list N -> W * option E) base64 w body,
     snd (Base64.decode_without_base64 write w body) <> Base64.BodyPanic
     /\ snd (Base64.decode_with_base64 write w body) <> Base64.BodyPanic
     /\ snd (Base64.data_url_decode write base64 w body) <> Base64.BodyPanic)
  /\ (forall s, usv_list s -> exists r, Mime.parse s = Mime.Ok r).
Proof.
  split.
  - intros W E write base64 w body.
    exact (conj (C04_NoPanic.dwo_no_panic write w body) (conj (C04_NoPanic.dwb_no_panic write w body)
          (C04_NoPanic.data_url_decode_no_panic write base64 w body))).
  - exact (proj1 C19.C19_total).
Qed.
Check C04_no_panic_data_url :
  (forall (W E : Type) (write : W -> list N -> W * option E) base64 w body,
     snd (Base64.decode_without_base64 write w body) <> Base64.BodyPanic
     /\ snd (Base64.decode_with_base64 write w body) <> Base64.BodyPanic
     /\ snd (Base64.data_url_decode write base64 w body) <> Base64.BodyPanic)
  /\ (forall s, usv_list s -> exists r, Mime.parse s = Mime.Ok r).
Print Assumptions C04_no_panic_data_url.

(* idna::punycode: encoders never panic; decoders never panic outside Known_C13_2 (finding F-C13-2:
   2^32 code units); same for the crate-internal decoder instantiations *)
Theorem C04_no_panic_punycode : forall cfg,
  (forall s site, Punycode.encode cfg s <> U32_c13.Panic site /\ Punycode.encode_str cfg s <> U32_c13.Panic site)
  /\ (forall p, ~ C13_Known.Known_C13_2 p ->
        forall site, Punycode.decode cfg p <> U32_c13.Panic site
                     /\ Punycode.decode_to_string cfg p <> U32_c13.Panic site)
  /\ (forall it p, ~ C13_Known.Known_C13_2 p -> forall site, Punycode.decode_with cfg it p <> U32_c13.Panic site).
Proof.
  intros cfg. destruct (C13.C13_safe cfg) as [He Hd]. split; [|split].
  - intros s site. destruct (He s) as [[H1|H1] [H2|H2]]; rewrite H1, H2; split; discriminate.
  - intros p Hk site. destruct (Hd p Hk) as (H1 & H2 & _). exact (conj (H1 site) (H2 site)).
  - intros it p Hk site. exact (C13.C13_safe_internal_decoder cfg it p Hk site).
Qed.
Check C04_no_panic_punycode : forall cfg,
  (forall s site, Punycode.encode cfg s <> U32_c13.Panic site /\ Punycode.encode_str cfg s <> U32_c13.Panic site)
  /\ (forall p, ~ C13_Known.Known_C13_2 p ->
        forall site, Punycode.decode cfg p <> U32_c13.Panic site
                     /\ Punycode.decode_to_string cfg p <> U32_c13.Panic site)
  /\ (forall it p, ~ C13_Known.Known_C13_2 p -> forall site, Punycode.decode_with cfg it p <> U32_c13.Panic site).
Print Assumptions C04_no_panic_punycode.

(* idna::uts46.  Full statement (not proved): outside Known_C11 (finding F-C11-2: the debug assertion
   of to_user_interface) no entry point reaches a panic site.  Proved: the fastest tier (lower-case
   letters, digits... and dots) returns without a panic in every mode and both configurations. *)
Definition C04_no_panic_uts46_statement : Prop :=
  forall A cfg d deny hy dns p, Idna_Hyp.AdapterOK A -> bytes d ->
    Idna_Known.Known_C11 A cfg d deny hy = false ->
    (forall site, Uts46.to_ascii A cfg d deny hy dns <> U32_c13.Panic site)
    /\ (forall site, Uts46.to_user_interface A cfg d deny hy p <> Uts46.UIPanic site).
Theorem C04_no_panic_uts46_partial : forall A cfg d deny hy p, bytes d -> Uts46.fast_tier d d = None ->
  Uts46.to_ascii A cfg d deny hy Uts46.DIgnore = U32_c13.Ok (true, d)
  /\ Uts46.to_user_interface A cfg d deny hy p = Uts46.UI true d false.
Proof.
  intros A cfg d deny hy p Hb H.
  exact (conj (Idna_Api.to_ascii_fast A cfg d deny hy H) (Idna_Api.to_ui_fast A cfg d deny hy p H)).
Qed.
Check C04_no_panic_uts46_partial : forall A cfg d deny hy p, bytes d -> Uts46.fast_tier d d = None ->
  Uts46.to_ascii A cfg d deny hy Uts46.DIgnore = U32_c13.Ok (true, d)
  /\ Uts46.to_user_interface A cfg d deny hy p = Uts46.UI true d false.
Print Assumptions C04_no_panic_uts46_partial.

(* proved beyond the fastest tier (Proofs/C04_Uts46_Inner.v): the whole label pipeline process_inner - ASCII fast
   paths, mapping and normalization, Punycode decoding and re-validation, check_label with ContextJ, the bidi
   rule - reaches none of its panic sites (the decoder's overflow panics: its input is capped at 2000 code units;
   uts46.rs 1275, 1618, 1590, 1650), for EVERY byte input, every deny list and hyphen mode, both error modes and
   both configurations, for every adapter whose normalizer functions return code points below 2^32 other than
   U+200F (AdapterNP).  The hypothesis is needed (second part: with the identity adapter the input U+200F fails
   debug_assert_ne!(c, RLM) in is_bidi).
   STILL MISSING w.r.t. C04_no_panic_uts46_statement: the debug assertions and unwraps of the two output walks of
   process (782, 789, 805-899, 928-992) and the unreachable!() behind the Punycode encoder (445); they need the
   positional invariant between passthrough_up_to, domain_buffer and already_punycode in BOTH error modes. *)
Theorem C04_no_panic_uts46_partial2 :
  (forall A cfg ff hy deny d, C04_Uts46_Inner.AdapterNP A -> bytes d ->
     forall site, Uts46.process_inner A cfg ff hy deny d <> Uts46.IPanic site)
  /\ Uts46.process_inner C04_Uts46_Inner.id_adapter true false Uts46.HAllow Uts46.DENY_EMPTY [226; 128; 143] = Uts46.IPanic 1650.
Proof.
  split.
  - intros A cfg ff hy deny d HA Hb site. exact (C04_Uts46_Inner.process_inner_np A cfg HA ff hy deny d Hb site).
  - exact C04_Uts46_Inner.np_needed.
Qed.
Check C04_no_panic_uts46_partial2 :
  (forall A cfg ff hy deny d, C04_Uts46_Inner.AdapterNP A -> bytes d ->
     forall site, Uts46.process_inner A cfg ff hy deny d <> Uts46.IPanic site)
  /\ Uts46.process_inner C04_Uts46_Inner.id_adapter true false Uts46.HAllow Uts46.DENY_EMPTY [226; 128; 143] = Uts46.IPanic 1650.
Print Assumptions C04_no_panic_uts46_partial2.

(* finding F-C04-13, exactly: when the processing wrote its output, the deprecated Idna::to_ascii(domain, out)
   panics iff debug assertions are on, verify_dns_length is configured and the UTF-8 text of  out ++ written  is
   not ASCII (the check is applied to the whole of `out`); witness: out = "e-acute", domain "e-acute x" *)
Theorem C04_13_exact : forall A cfg c domain out s x,
  Uts46.process A cfg true Uts46.never_unicode
    (utf8_encode (Uts46.map_transitional domain (Uts46.transitional_processing c)))
    (Uts46.config_deny_list c) (Uts46.config_hyphens c) None None false = (Uts46.PWroteToSink, s, x) ->
  (U32_c13.is_panic (Uts46.idna_to_ascii A cfg c domain out) = true
   <-> cfg = true /\ Uts46.cfg_verify_dns_length c = true /\ Uts46.is_ascii_l (utf8_encode (out ++ s)) = false).
Proof. exact C04_Uts46_Api.idna_to_ascii_wrote. Qed.
Check C04_13_exact : forall A cfg c domain out s x,
  Uts46.process A cfg true Uts46.never_unicode
    (utf8_encode (Uts46.map_transitional domain (Uts46.transitional_processing c)))
    (Uts46.config_deny_list c) (Uts46.config_hyphens c) None None false = (Uts46.PWroteToSink, s, x) ->
  (U32_c13.is_panic (Uts46.idna_to_ascii A cfg c domain out) = true
   <-> cfg = true /\ Uts46.cfg_verify_dns_length c = true /\ Uts46.is_ascii_l (utf8_encode (out ++ s)) = false).
Print Assumptions C04_13_exact.

Theorem C04_13_refuted :
  Uts46.idna_to_ascii Idna_Known.toy true C04_Uts46_Api.cfg_verify [233; 120] [233] = U32_c13.Panic 468
  /\ Uts46.idna_to_ascii Idna_Known.toy false C04_Uts46_Api.cfg_verify [233; 120] [233]
     = U32_c13.Ok [233; 120; 110; 45; 45; 120; 45; 57; 102; 97]
  /\ Uts46.idna_to_ascii Idna_Known.toy true C04_Uts46_Api.cfg_verify [233; 120] []
     = U32_c13.Ok [120; 110; 45; 45; 120; 45; 57; 102; 97].
Proof. exact C04_Uts46_Api.c04_13_witness. Qed.
Check C04_13_refuted :
  Uts46.idna_to_ascii Idna_Known.toy true C04_Uts46_Api.cfg_verify [233; 120] [233] = U32_c13.Panic 468
  /\ Uts46.idna_to_ascii Idna_Known.toy false C04_Uts46_Api.cfg_verify [233; 120] [233]
     = U32_c13.Ok [233; 120; 110; 45; 45; 120; 45; 57; 102; 97]
  /\ Uts46.idna_to_ascii Idna_Known.toy true C04_Uts46_Api.cfg_verify [233; 120] []
     = U32_c13.Ok [120; 110; 45; 45; 120; 45; 57; 102; 97].
Print Assumptions C04_13_refuted.

(* finding F-C11-2 (the class Known_C11 excluded by C04_no_panic_uts46_statement): to_user_interface("1a.xn--4db")
   with a never-Unicode policy fails debug_assert!(!had_errors) at uts46.rs:899 *)
Theorem C04_c11_2_refuted :
  Idna_Known.Known_C11 Idna_Known.toy false Idna_Known.W_C11_2 Uts46.DENY_EMPTY Uts46.HAllow = true
  /\ Uts46.to_user_interface Idna_Known.toy true Idna_Known.W_C11_2 Uts46.DENY_EMPTY Uts46.HAllow Uts46.never_unicode
     = Uts46.UIPanic 899
  /\ Uts46.to_user_interface Idna_Known.toy false Idna_Known.W_C11_2 Uts46.DENY_EMPTY Uts46.HAllow Uts46.never_unicode
     = Uts46.UI true Idna_Known.W_C11_2 false.
Proof. destruct Idna_Known.w_c11_2 as (H1 & _ & H3 & H4). exact (conj H1 (conj H4 H3)). Qed.
Check C04_c11_2_refuted :
  Idna_Known.Known_C11 Idna_Known.toy false Idna_Known.W_C11_2 Uts46.DENY_EMPTY Uts46.HAllow = true
  /\ Uts46.to_user_interface Idna_Known.toy true Idna_Known.W_C11_2 Uts46.DENY_EMPTY Uts46.HAllow Uts46.never_unicode
     = Uts46.UIPanic 899
  /\ Uts46.to_user_interface Idna_Known.toy false Idna_Known.W_C11_2 Uts46.DENY_EMPTY Uts46.HAllow Uts46.never_unicode
     = Uts46.UI true Idna_Known.W_C11_2 false.
Print Assumptions C04_c11_2_refuted.

(* Host::parse / Host::parse_opaque: every input, '['-led IPv6 literals included (C09_total) *)
Theorem C04_no_panic_host :
  (forall idna input, C09_Reject.no_panic (Host.host_parse_x idna input))
  /\ (forall input, C09_Reject.no_panic (Host.host_parse_opaque_x input)).
Proof. exact C09.C09_total. Qed.
Check C04_no_panic_host :
  (forall idna input, C09_Reject.no_panic (Host.host_parse_x idna input))
  /\ (forall input, C09_Reject.no_panic (Host.host_parse_opaque_x input)).
Print Assumptions C04_no_panic_host.

(* the earlier, weaker form (inputs that do not start with '['), kept under its own name *)
Theorem C04_no_panic_host_partial :
  (forall idna input, Host.starts_with 91 input = false -> C09_Reject.no_panic (Host.host_parse_x idna input))
  /\ (forall input, Host.starts_with 91 input = false -> C09_Reject.no_panic (Host.host_parse_opaque_x input)).
Proof. exact C09.C09_total_partial. Qed.
Check C04_no_panic_host_partial :
  (forall idna input, Host.starts_with 91 input = false -> C09_Reject.no_panic (Host.host_parse_x idna input))
  /\ (forall input, Host.starts_with 91 input = false -> C09_Reject.no_panic (Host.host_parse_opaque_x input)).
Print Assumptions C04_no_panic_host_partial.

(* Url accessors and Position slicing on a record satisfying wf_b, both configurations *)
Theorem C04_no_panic_accessors : forall dbg u, wf_b u = true ->
  (forall p, exists i, Setters.position_index dbg u p = Some i /\ i <= nlen (ser u))
  /\ (forall p q, (C03_WF.pos_rank p <= C03_WF.pos_rank q)%nat -> exists s, Setters.index_range dbg u p q = Some s)
  /\ (forall p, exists s t, Setters.index_to dbg u p = Some s /\ Setters.index_from dbg u p = Some t)
  /\ (exists sch un pw hs pth q f,
        scheme u = Some sch /\ username dbg u = Some un /\ password dbg u = Some pw /\ host_str u = Some hs
        /\ path u = Some pth /\ query dbg u = Some q /\ fragment dbg u = Some f).
Proof.
  intros dbg u H. split; [|split; [|split]].
  - intros p. exact (C03.C03_index dbg u p H).
  - exact (proj1 (C03.C03_slices dbg u H)).
  - intros p. destruct (proj1 (proj2 (C03.C03_slices dbg u H)) p) as (s & t & Hs & Ht & _). exists s, t. tauto.
  - destruct (C03.C03_concat dbg u H) as (sch & un & pw & hs & pth & q & f & H1 & H2 & H3 & H4 & H5 & H6 & H7 & _).
    exists sch, un, pw, hs, pth, q, f. tauto.
Qed.
Check C04_no_panic_accessors : forall dbg u, wf_b u = true ->
  (forall p, exists i, Setters.position_index dbg u p = Some i /\ i <= nlen (ser u))
  /\ (forall p q, (C03_WF.pos_rank p <= C03_WF.pos_rank q)%nat -> exists s, Setters.index_range dbg u p q = Some s)
  /\ (forall p, exists s t, Setters.index_to dbg u p = Some s /\ Setters.index_from dbg u p = Some t)
  /\ (exists sch un pw hs pth q f,
        scheme u = Some sch /\ username dbg u = Some un /\ password dbg u = Some pw /\ host_str u = Some hs
        /\ path u = Some pth /\ query dbg u = Some q /\ fragment dbg u = Some f).
Print Assumptions C04_no_panic_accessors.

(* Url setters on a well-formed record (wfh = wf_b + host text invariant), both configurations.
   set_host is not in the list: findings F-C04-1 and F-C04-3 (see C04_setters_refuted) *)
Theorem C04_no_panic_setters : forall dbg u, C06_Main.wfh u ->
  (forall f, exists u', Setters.set_fragment dbg u f = Some u')
  /\ (forall q, C06_Main.str_arg_ok q -> exists u', Setters.set_query dbg u q = Some u')
  /\ (forall p, C06_Main.port_arg_ok p -> exists r, Setters.set_port dbg u p = Some r)
  /\ (forall pw, exists r, Setters.set_password dbg u pw = Some r)
  /\ (forall un, exists r, Setters.set_username dbg u un = Some r)
  /\ (forall s, exists r, Setters.set_scheme dbg u s = Some r).
Proof. exact C06.C06_nopanic. Qed.
Check C04_no_panic_setters : forall dbg u, C06_Main.wfh u ->
  (forall f, exists u', Setters.set_fragment dbg u f = Some u')
  /\ (forall q, C06_Main.str_arg_ok q -> exists u', Setters.set_query dbg u q = Some u')
  /\ (forall p, C06_Main.port_arg_ok p -> exists r, Setters.set_port dbg u p = Some r)
  /\ (forall pw, exists r, Setters.set_password dbg u pw = Some r)
  /\ (forall un, exists r, Setters.set_username dbg u un = Some r)
  /\ (forall s, exists r, Setters.set_scheme dbg u s = Some r).
Print Assumptions C04_no_panic_setters.

(* the remaining mutators, on a record satisfying wf_b alone, ANY argument (no scalar-value hypothesis), any host
   functions, both configurations (Proofs/C04_SetPath.v, C04_SetHost.v):
   - set_path never panics;
   - a path_segments_mut session (any sequence of clear / pop_if_empty / pop / push / extend, then drop) panics
     exactly when debug assertions are on and psm_assert_fails u: the URL is not cannot-be-a-base, its scheme is
     special and the byte at path_start is not '/' (the debug_assert of PathSegmentsMut::new; wf_b allows such a
     record, the parser never produces one: C04_psm_refuted);
   - set_host panics exactly in the class of finding F-C04-1: debug assertions on, argument None, known_c04_1 u
     (has a host, not special-not-file, the path is empty and a '?' or '#' follows);
   - set_ip_host never panics.
   Findings F-C04-3 and F-C04-12 are not panics of a mutator on a wf_b record: the mutator returns a record
   outside wf_b and a LATER accessor panics (C04_3_refuted, C04_12_refuted). *)
Theorem C04_no_panic_setters2 : forall dbg hp hpo hd u, wf_b u = true ->
  (forall p, exists u', Setters.set_path dbg u p = Some u')
  /\ (forall ops, Setters.path_segments_session dbg u ops = None <-> dbg = true /\ C04_SetPath.psm_assert_fails u = true)
  /\ (forall h, Setters.set_host dbg hp hpo hd u h = None <-> dbg = true /\ h = None /\ C04_SetHost.known_c04_1 u = true)
  /\ (forall h, exists r, Setters.set_ip_host dbg hd u h = Some r)
  /\ (forall h op, exists u', Setters.set_host_internal dbg hd u h op = Some u').
Proof.
  intros dbg hp hpo hd u W.
  exact (conj (fun p => C04_SetPath.set_path_total dbg u p W)
        (conj (fun ops => C04_SetPath.session_panics_iff dbg u ops W)
        (conj (fun h => C04_SetHost.set_host_panics_iff dbg hp hpo hd u h W)
        (conj (fun h => C04_SetHost.set_ip_host_total dbg hp hpo hd u h W)
              (fun h op => C04_SetHost.set_host_internal_total dbg hp hpo hd u h op W))))).
Qed.
Check C04_no_panic_setters2 : forall dbg hp hpo hd u, wf_b u = true ->
  (forall p, exists u', Setters.set_path dbg u p = Some u')
  /\ (forall ops, Setters.path_segments_session dbg u ops = None <-> dbg = true /\ C04_SetPath.psm_assert_fails u = true)
  /\ (forall h, Setters.set_host dbg hp hpo hd u h = None <-> dbg = true /\ h = None /\ C04_SetHost.known_c04_1 u = true)
  /\ (forall h, exists r, Setters.set_ip_host dbg hd u h = Some r)
  /\ (forall h op, exists u', Setters.set_host_internal dbg hd u h op = Some u').
Print Assumptions C04_no_panic_setters2.

(* inside known_c04_1 the path is empty and a query or a fragment follows *)
Theorem C04_known_1_shape : forall u, wf_b u = true -> C04_SetHost.known_c04_1 u = true ->
  path_start u = C06_WFI.path_end u /\ (query_start u <> None \/ fragment_start u <> None).
Proof. exact C04_SetHost.known_c04_1_shape. Qed.
Check C04_known_1_shape : forall u, wf_b u = true -> C04_SetHost.known_c04_1 u = true ->
  path_start u = C06_WFI.path_end u /\ (query_start u <> None \/ fragment_start u <> None).
Print Assumptions C04_known_1_shape.

(* finding F-C04-1: "a://h?q".set_host(None) *)
Theorem C04_1_refuted :
  wf_b C04_SetHost.w_c04_1 = true /\ C04_SetHost.known_c04_1 C04_SetHost.w_c04_1 = true
  /\ Setters.set_host true C06_Host.hs_hp C06_Host.hs_hp C06_Host.hs_hd C04_SetHost.w_c04_1 None = None
  /\ Setters.set_host false C06_Host.hs_hp C06_Host.hs_hp C06_Host.hs_hd C04_SetHost.w_c04_1 None
     = Some (mkUrl [97; 58; 63; 113] 1 2 2 2 HI_None None 2 (Some 2) None, Setters.SOk).
Proof. exact C04_SetHost.c04_1_witness. Qed.
Check C04_1_refuted :
  wf_b C04_SetHost.w_c04_1 = true /\ C04_SetHost.known_c04_1 C04_SetHost.w_c04_1 = true
  /\ Setters.set_host true C06_Host.hs_hp C06_Host.hs_hp C06_Host.hs_hd C04_SetHost.w_c04_1 None = None
  /\ Setters.set_host false C06_Host.hs_hp C06_Host.hs_hp C06_Host.hs_hd C04_SetHost.w_c04_1 None
     = Some (mkUrl [97; 58; 63; 113] 1 2 2 2 HI_None None 2 (Some 2) None, Setters.SOk).
Print Assumptions C04_1_refuted.

(* finding F-C04-3: "a://h:80/".set_host(Some "") returns (no panic) the record "a://:80/", which is outside
   wf_b; password() on it panics in both configurations *)
Theorem C04_3_refuted :
  wf_b C06_Host.hs_w1 = true /\ C04_SetHost.known_c04_1 C06_Host.hs_w1 = false
  /\ exists u', Setters.set_host true C06_Host.hs_hp C06_Host.hs_hp C06_Host.hs_hd C06_Host.hs_w1 (Some []) = Some (u', Setters.SOk)
     /\ ser u' = [97; 58; 47; 47; 58; 56; 48; 47] /\ wf_b u' = false
     /\ password true u' = None /\ password false u' = None.
Proof. exact C04_SetHost.c04_3_witness. Qed.
Check C04_3_refuted :
  wf_b C06_Host.hs_w1 = true /\ C04_SetHost.known_c04_1 C06_Host.hs_w1 = false
  /\ exists u', Setters.set_host true C06_Host.hs_hp C06_Host.hs_hp C06_Host.hs_hd C06_Host.hs_w1 (Some []) = Some (u', Setters.SOk)
     /\ ser u' = [97; 58; 47; 47; 58; 56; 48; 47] /\ wf_b u' = false
     /\ password true u' = None /\ password false u' = None.
Print Assumptions C04_3_refuted.

(* finding F-C04-12: "a:/a/b".set_path("//") returns (no panic) the record "a://", which is outside wf_b;
   &u[BeforeUsername..AfterUsername] on it panics in both configurations *)
Theorem C04_12_refuted :
  wf_b C04_SetPath.w_c04_12 = true
  /\ exists u', Setters.set_path true C04_SetPath.w_c04_12 [47; 47] = Some u'
     /\ Setters.set_path false C04_SetPath.w_c04_12 [47; 47] = Some u'
     /\ ser u' = [97; 58; 47; 47] /\ wf_b u' = false
     /\ Setters.index_range true u' Setters.BeforeUsername Setters.AfterUsername = None
     /\ Setters.index_range false u' Setters.BeforeUsername Setters.AfterUsername = None.
Proof. exact C04_SetPath.c04_12_witness. Qed.
Check C04_12_refuted :
  wf_b C04_SetPath.w_c04_12 = true
  /\ exists u', Setters.set_path true C04_SetPath.w_c04_12 [47; 47] = Some u'
     /\ Setters.set_path false C04_SetPath.w_c04_12 [47; 47] = Some u'
     /\ ser u' = [97; 58; 47; 47] /\ wf_b u' = false
     /\ Setters.index_range true u' Setters.BeforeUsername Setters.AfterUsername = None
     /\ Setters.index_range false u' Setters.BeforeUsername Setters.AfterUsername = None.
Print Assumptions C04_12_refuted.

(* the record excluded by psm_assert_fails: "http://h" with an empty path satisfies wf_b *)
Theorem C04_psm_refuted :
  wf_b C04_SetPath.psm_w = true /\ C04_SetPath.psm_assert_fails C04_SetPath.psm_w = true
  /\ Setters.path_segments_session true C04_SetPath.psm_w [] = None
  /\ Setters.path_segments_session false C04_SetPath.psm_w [] = Some (C04_SetPath.psm_w, Setters.SOk).
Proof. exact C04_SetPath.psm_witness. Qed.
Check C04_psm_refuted :
  wf_b C04_SetPath.psm_w = true /\ C04_SetPath.psm_assert_fails C04_SetPath.psm_w = true
  /\ Setters.path_segments_session true C04_SetPath.psm_w [] = None
  /\ Setters.path_segments_session false C04_SetPath.psm_w [] = Some (C04_SetPath.psm_w, Setters.SOk).
Print Assumptions C04_psm_refuted.

(* ================================================================== 3. the URL parser *)
(* the class excluded by finding F-C04-7: the file scheme is involved (input scheme, or base scheme
   when the input has none) *)
Definition known_c04_7 (base : option url) (input : list N) : bool :=
  match parse_scheme CUrlParser (input_new_trim_c0 input) with
  | Some (sch, _) => st_is_file (scheme_type_of sch)
  | None => match base with Some b => list_eqb (b_scheme b) s_file | None => false end
  end.

(* full statement (not proved): with a well-formed base and outside the file class, parse_url reaches
   none of its panic sites, for any host functions and both configurations *)
Definition C04_parse_no_panic_statement : Prop :=
  forall dbg hp hpo hd ovr base input, usv_list input ->
    (match base with Some b => wf_b b = true | None => True end) ->
    known_c04_7 base input = false ->
    parse_url dbg hp hpo hd ovr base input <> PPanic.

(* proved: no base, and either no scheme at all or a non-special scheme not followed by "//"
   ("sch:/path?q#f", "sch:opaque?q#f"): pop_path's unwrap, finish_segment's debug_assert and slice,
   the assert!s of with_query_and_fragment and the panic! of parse_query_and_fragment are unreachable *)
Theorem C04_parse_no_panic_partial : forall dbg hp hpo hd ovr input, usv_list input ->
  match parse_scheme CUrlParser (input_new_trim_c0 input) with
  | None => parse_url dbg hp hpo hd ovr None input = PErr RelativeUrlWithoutBase
  | Some (sch, rem) =>
      scheme_type_of sch = STNotSpecial -> inp_split_prefix_str s_ss rem = None ->
      parse_url dbg hp hpo hd ovr None input <> PPanic
  end.
Proof.
  intros dbg hp hpo hd ovr input Hu.
  destruct (parse_scheme CUrlParser (input_new_trim_c0 input)) as [[sch rem]|] eqn:Es.
  - intros Hns Hss. exact (C04_Parse.parse_noauth_no_panic dbg hp hpo hd ovr input sch rem Hu Es Hns Hss).
  - exact (C04_Parse.parse_no_scheme_no_panic dbg hp hpo hd ovr input Es).
Qed.
Check C04_parse_no_panic_partial : forall dbg hp hpo hd ovr input, usv_list input ->
  match parse_scheme CUrlParser (input_new_trim_c0 input) with
  | None => parse_url dbg hp hpo hd ovr None input = PErr RelativeUrlWithoutBase
  | Some (sch, rem) =>
      scheme_type_of sch = STNotSpecial -> inp_split_prefix_str s_ss rem = None ->
      parse_url dbg hp hpo hd ovr None input <> PPanic
  end.
Print Assumptions C04_parse_no_panic_partial.

(* the path state is total on the canonical shape  pre "/" seg "/" ... "/" cur  for ANY prefix (hence
   also behind an authority): it returns the shape again and stops at the first '?' / '#' *)
Theorem C04_path_loop_total : forall pre dbg l segs cur pend hh, usv_list l -> C02_PathL1.pend_ok pend ->
  forallb C02_Path.good_seg segs = true -> C02_Enc.clean T_PATH cur = true -> C02_Path.no_slash cur = true ->
  exists segs' last',
    parse_path_loop dbg CUrlParser STNotSpecial (nlen pre) l (C02_PathL1.Bs pre segs ++ cur)
                    (nlen (C02_PathL1.Bs pre segs)) pend hh
    = POk (C02_PathL1.Bs pre segs' ++ last', hh, C02_Parts.cbb_rest l)
    /\ forallb C02_Path.good_seg segs' = true /\ C02_Path.good_seg last' = true.
Proof. exact C04_Parse.loop_total. Qed.
Check C04_path_loop_total : forall pre dbg l segs cur pend hh, usv_list l -> C02_PathL1.pend_ok pend ->
  forallb C02_Path.good_seg segs = true -> C02_Enc.clean T_PATH cur = true -> C02_Path.no_slash cur = true ->
  exists segs' last',
    parse_path_loop dbg CUrlParser STNotSpecial (nlen pre) l (C02_PathL1.Bs pre segs ++ cur)
                    (nlen (C02_PathL1.Bs pre segs)) pend hh
    = POk (C02_PathL1.Bs pre segs' ++ last', hh, C02_Parts.cbb_rest l)
    /\ forallb C02_Path.good_seg segs' = true /\ C02_Path.good_seg last' = true.
Print Assumptions C04_path_loop_total.

(* the authority states: parse_userinfo's second pass never runs out of characters (its
   `next_utf8().unwrap()`: the count returned by the first pass is at most the number of characters the
   skipping iterator yields), and parse_host_and_port has no panic outcome - any scheme type, context
   and host functions *)
Theorem C04_no_panic_authority_states : forall hp hpo hd ctx st se ser l,
  parse_userinfo st ser l <> PPanic /\ parse_host_and_port hp hpo hd ctx st se ser l <> PPanic.
Proof.
  intros hp hpo hd ctx st se ser l.
  exact (conj (C04_Parse.parse_userinfo_no_panic st ser l) (C04_Parse.parse_host_and_port_no_panic hp hpo hd ctx st se ser l)).
Qed.
Check C04_no_panic_authority_states : forall hp hpo hd ctx st se ser l,
  parse_userinfo st ser l <> PPanic /\ parse_host_and_port hp hpo hd ctx st se ser l <> PPanic.
Print Assumptions C04_no_panic_authority_states.

(* proved (Proofs/C04_ParseTotal.v): the WHOLE domain of the full statement except for one point where the
   full statement is false (next theorem).  Every input - the scalar-value hypothesis is not needed -,
   with or without base, any scheme outside the file class known_c04_7, any host functions, both
   configurations: parse_url reaches none of its panic sites (pop_path's unwrap, the debug_assert! and the
   slice of the path state, the debug_assert!s of parse_with_scheme / parse_relative, the unwrap of
   parse_userinfo, the assert!s of with_query_and_fragment, the panic! of parse_query_and_fragment, the
   unwrap of cannot_be_a_base).  This covers: (a) non-special scheme followed by "//" (userinfo, host and
   port, path behind an authority), (b) the special non-file schemes ('\' as a separator, any number of
   leading slashes, default ports), (c) every relative reference (empty, fragment-only, query-only,
   scheme-relative, path-absolute, path-relative with pop_path / shorten_path; also "http:rel" against a
   base of the same special scheme) against a base b with base_ok b = true, i.e. wf_b b and, when the
   scheme of b is special, the byte behind "scheme:" is '/' (b is not cannot-be-a-base - true of every
   special URL the parser produces).  Still missing w.r.t. the intent of the full statement: only the file
   class (F-C04-7 is a real panic there). *)
Theorem C04_parse_no_panic_partial2 : forall dbg hp hpo hd ovr base input,
  (match base with Some b => C04_ParseTotal.base_ok b = true | None => True end) ->
  known_c04_7 base input = false ->
  parse_url dbg hp hpo hd ovr base input <> PPanic.
Proof. exact C04_ParseTotal.parse_url_ok. Qed.
Check C04_parse_no_panic_partial2 : forall dbg hp hpo hd ovr base input,
  (match base with Some b => C04_ParseTotal.base_ok b = true | None => True end) ->
  known_c04_7 base input = false ->
  parse_url dbg hp hpo hd ovr base input <> PPanic.
Print Assumptions C04_parse_no_panic_partial2.

(* the full statement as written is FALSE: wf_b does not say that a special URL has an authority.  The
   record "http:x" (scheme_end 4, all other offsets 5, no host) satisfies wf_b; joining "http:y" with it
   reaches the debug assertion of parse_with_scheme (debug builds) and pop_path's unwrap (release
   builds), whatever the host functions.  The parser never produces such a record (special URLs always
   get "//"); it can only come from Url::deserialize_internal in a release build, which skips
   check_invariants.  base_ok is wf_b plus exactly the missing fact. *)
Theorem C04_parse_no_panic_statement_refuted :
  ~ C04_parse_no_panic_statement
  /\ (usv_list C04_ParseTotal.cbb_special_ref /\ wf_b C04_ParseTotal.cbb_special_base = true
      /\ known_c04_7 (Some C04_ParseTotal.cbb_special_base) C04_ParseTotal.cbb_special_ref = false
      /\ C04_ParseTotal.base_ok C04_ParseTotal.cbb_special_base = false
      /\ forall dbg hp hpo hd ovr,
           parse_url dbg hp hpo hd ovr (Some C04_ParseTotal.cbb_special_base) C04_ParseTotal.cbb_special_ref = PPanic).
Proof. exact (conj C04_ParseTotal.parse_statement_false C04_ParseTotal.cbb_special_witness). Qed.
Check C04_parse_no_panic_statement_refuted :
  ~ C04_parse_no_panic_statement
  /\ (usv_list C04_ParseTotal.cbb_special_ref /\ wf_b C04_ParseTotal.cbb_special_base = true
      /\ known_c04_7 (Some C04_ParseTotal.cbb_special_base) C04_ParseTotal.cbb_special_ref = false
      /\ C04_ParseTotal.base_ok C04_ParseTotal.cbb_special_base = false
      /\ forall dbg hp hpo hd ovr,
           parse_url dbg hp hpo hd ovr (Some C04_ParseTotal.cbb_special_base) C04_ParseTotal.cbb_special_ref = PPanic).
Print Assumptions C04_parse_no_panic_statement_refuted.

(* the invariant behind it: for every scheme type other than file, any input, any serialization whose
   byte in front of the current segment is '/' (seg_inv: path_start <= segment_start, ser[segment_start-1]
   = '/'), the path state returns, keeps the first k <= min(segment_start, path_start + 1) bytes, keeps
   has_host, and stops at the end or in front of '?' / '#' *)
Theorem C04_path_state_total : forall dbg st ps k, st_is_file st = false -> k <= ps + 1 ->
  forall l ser ss pend hh, C04_PathTotal.seg_inv ps k ser ss ->
  exists s' rem, parse_path_loop dbg CUrlParser st ps l ser ss pend hh = POk (s', hh, rem)
                 /\ C06_List.agree_pre k ser s' /\ C04_PathTotal.rem_ok rem.
Proof. exact C04_PathTotal.loop_ok. Qed.
Check C04_path_state_total : forall dbg st ps k, st_is_file st = false -> k <= ps + 1 ->
  forall l ser ss pend hh, C04_PathTotal.seg_inv ps k ser ss ->
  exists s' rem, parse_path_loop dbg CUrlParser st ps l ser ss pend hh = POk (s', hh, rem)
                 /\ C06_List.agree_pre k ser s' /\ C04_PathTotal.rem_ok rem.
Print Assumptions C04_path_state_total.

(* the file class, narrowed (Proofs/C04_PathFile.v, C04_ParseFile.v): known_c04_7b is the part of
   known_c04_7 in which there is a file base, the reference (after its optional "file:") starts with a
   path segment - not '/', '\', '?', '#', not a drive letter - and shorten_path leaves a base text that
   does not end in '/' (it refuses to remove a drive-letter-shaped last segment, or the base path is
   empty, or it panics on a cannot-be-a-base record): there the first segment starts behind a byte that is
   not '/' and a ".." fails the debug assertion (F-C04-7).  Everywhere else - file URLs without base, file
   host state, one leading separator with the base's drive letter or host, '?', '#', drive-letter
   references, and path-relative references against a base whose shortened path ends in '/' - parse_url
   reaches no panic site.  The drive-letter quirks are covered: the loop arm that moves segment_start into
   "C:/" (state bad_seg), the rewriting of "C|" into "C:", the refusals of pop_path / shorten_path.
   GAP: inside known_c04_7b nothing is proved (the recogniser does not look at the first segment, so it
   also contains harmless inputs such as "x" against file:///C:). *)
Theorem C04_parse_no_panic_partial3 : forall dbg hp hpo hd ovr base input,
  (match base with Some b => C04_ParseTotal.base_ok b = true | None => True end) ->
  C04_ParseFile.known_c04_7b base input = false ->
  parse_url dbg hp hpo hd ovr base input <> PPanic.
Proof. exact C04_ParseFile.parse_url_ok3. Qed.
Check C04_parse_no_panic_partial3 : forall dbg hp hpo hd ovr base input,
  (match base with Some b => C04_ParseTotal.base_ok b = true | None => True end) ->
  C04_ParseFile.known_c04_7b base input = false ->
  parse_url dbg hp hpo hd ovr base input <> PPanic.
Print Assumptions C04_parse_no_panic_partial3.

(* known_c04_7b is a sub-class of known_c04_7 (so partial3 implies partial2), and the path state is total
   for ANY scheme type from the two kinds of states seg_inv / bad_seg *)
Theorem C04_known_7b_narrower : forall base input,
  C04_ParseFile.known_c04_7b base input = true -> known_c04_7 base input = true.
Proof. exact C04_ParseFile.known_7b_file_involved. Qed.
Check C04_known_7b_narrower : forall base input,
  C04_ParseFile.known_c04_7b base input = true -> known_c04_7 base input = true.
Print Assumptions C04_known_7b_narrower.

Theorem C04_path_state_total_any : forall dbg st ps k, k <= ps + 1 ->
  forall l ser ss pend hh, C04_PathFile.path_inv ps k ser ss ->
  C04_PathFile.path_res st ps k ser (parse_path_loop dbg CUrlParser st ps l ser ss pend hh).
Proof. exact C04_PathFile.loop_any. Qed.
Check C04_path_state_total_any : forall dbg st ps k, k <= ps + 1 ->
  forall l ser ss pend hh, C04_PathFile.path_inv ps k ser ss ->
  C04_PathFile.path_res st ps k ser (parse_path_loop dbg CUrlParser st ps l ser ss pend hh).
Print Assumptions C04_path_state_total_any.

(* the path state in EVERY context (Parser, Setter, PathSegmentSetter): same invariant, same result *)
Theorem C04_path_state_total_ctx : forall dbg ctx st ps k, k <= ps + 1 ->
  forall l ser ss pend hh, C04_PathFile.path_inv ps k ser ss ->
  C04_PathFile.path_res st ps k ser (parse_path_loop dbg ctx st ps l ser ss pend hh).
Proof. exact C04_PathCtx.loop_ctx. Qed.
Check C04_path_state_total_ctx : forall dbg ctx st ps k, k <= ps + 1 ->
  forall l ser ss pend hh, C04_PathFile.path_inv ps k ser ss ->
  C04_PathFile.path_res st ps k ser (parse_path_loop dbg ctx st ps l ser ss pend hh).
Print Assumptions C04_path_state_total_ctx.

(* THE PARSER, EXACTLY (Proofs/C04_ParseFile7.v): for every input, with or without base (base_ok), any host
   functions: parse_url reaches a panic site if and only if debug assertions are on and (base, input) is in
   known_c04_7x - the exact class of finding F-C04-7: the file scheme is involved, there is a file base, the
   reference (after an optional "file:") is path-relative (first character not / \ ? #, no drive letter),
   shorten_path leaves a base text that does not end in '/' (file_rel_unsafe), the drive-letter arm of the path
   loop does not fire inside the first segment, and the percent-encoded first segment is a double-dot spelling
   ("..", ".%2e", "%2E.", "%2e%2E", ...).  In a build without debug assertions parse_url never panics.
   This closes the gap of C04_parse_no_panic_partial3 (known_c04_7x is a sub-class of known_c04_7b). *)
Theorem C04_parse_panic_iff : forall dbg hp hpo hd ovr base input,
  (match base with Some b => C04_ParseTotal.base_ok b = true | None => True end) ->
  (parse_url dbg hp hpo hd ovr base input = PPanic <-> dbg = true /\ C04_ParseFile7.known_c04_7x base input = true).
Proof. exact C04_ParseFile7.parse_url_panic_iff. Qed.
Check C04_parse_panic_iff : forall dbg hp hpo hd ovr base input,
  (match base with Some b => C04_ParseTotal.base_ok b = true | None => True end) ->
  (parse_url dbg hp hpo hd ovr base input = PPanic <-> dbg = true /\ C04_ParseFile7.known_c04_7x base input = true).
Print Assumptions C04_parse_panic_iff.

Theorem C04_known_7x_narrower : forall base input,
  C04_ParseFile7.known_c04_7x base input = true -> C04_ParseFile.known_c04_7b base input = true.
Proof. exact C04_ParseFile7.known_7x_7b. Qed.
Check C04_known_7x_narrower : forall base input,
  C04_ParseFile7.known_c04_7x base input = true -> C04_ParseFile.known_c04_7b base input = true.
Print Assumptions C04_known_7x_narrower.

(* finding F-C04-7: a file: base whose last segment looks like a drive letter, joined with "../x":
   the debug assertion of the path state fails (PPanic with debug assertions, a URL without) *)
Definition toy_hp (s : list N) : result host := Ok (HDomain s).
Definition toy_hd (h : host) : list N := match h with HDomain d => d | _ => [] end.
Definition w_c04_7_base : list N := [102;105;108;101;58;47;47;47;37;98;47;47;99;58].   (* file:///%b//c: *)
Definition w_c04_7_ref : list N := [46;46;47;120].                                    (* ../x *)
Theorem C04_7_refuted : exists b,
  parse_url true toy_hp toy_hp toy_hd None None w_c04_7_base = POk b /\ wf_b b = true
  /\ known_c04_7 (Some b) w_c04_7_ref = true
  /\ parse_url true toy_hp toy_hp toy_hd None (Some b) w_c04_7_ref = PPanic
  /\ parse_url false toy_hp toy_hp toy_hd None (Some b) w_c04_7_ref <> PPanic.
Proof. exists (mkUrl w_c04_7_base 4 7 7 7 HI_None None 7 None None). vm_compute. repeat split; discriminate. Qed.
Check C04_7_refuted : exists b,
  parse_url true toy_hp toy_hp toy_hd None None w_c04_7_base = POk b /\ wf_b b = true
  /\ known_c04_7 (Some b) w_c04_7_ref = true
  /\ parse_url true toy_hp toy_hp toy_hd None (Some b) w_c04_7_ref = PPanic
  /\ parse_url false toy_hp toy_hp toy_hd None (Some b) w_c04_7_ref <> PPanic.
Print Assumptions C04_7_refuted.

(* ================================================================== 4. UTF-8 at the unsafe sites *)
(* percent_encoding/src/lib.rs:96 *)
Theorem C04_utf8_pe_encode_byte : forall b, is_byte b ->
  ascii (site_pe_encode_byte b) /\ length (site_pe_encode_byte b) = 3%nat.
Proof. exact C04_Utf8.utf8_pe_encode_byte. Qed.
Check C04_utf8_pe_encode_byte : forall b, is_byte b ->
  ascii (site_pe_encode_byte b) /\ length (site_pe_encode_byte b) = 3%nat.
Print Assumptions C04_utf8_pe_encode_byte.

(* percent_encoding/src/lib.rs:163, :168 *)
Theorem C04_utf8_pe_unchanged : forall S bs c, site_pe_unchanged S bs = Some c ->
  ascii c /\ exists rest, pe_next S bs = Some (c, rest).
Proof. exact C04_Utf8.utf8_pe_unchanged. Qed.
Check C04_utf8_pe_unchanged : forall S bs c, site_pe_unchanged S bs = Some c ->
  ascii c /\ exists rest, pe_next S bs = Some (c, rest).
Print Assumptions C04_utf8_pe_unchanged.

(* percent_encoding/src/lib.rs:359 and form_urlencoded/src/lib.rs:422: the Vec reused as a String is
   valid UTF-8 and decodes to exactly the text from_utf8_lossy produced *)
Theorem C04_utf8_lossy_reuse : forall bytes s, site_lossy_reuse bytes = Some s ->
  s = bytes /\ utf8_valid s = true /\ utf8_strict s = inl (utf8_lossy bytes).
Proof. exact C04_Utf8.utf8_lossy_reuse. Qed.
Check C04_utf8_lossy_reuse : forall bytes s, site_lossy_reuse bytes = Some s ->
  s = bytes /\ utf8_valid s = true /\ utf8_strict s = inl (utf8_lossy bytes).
Print Assumptions C04_utf8_lossy_reuse.

(* form_urlencoded/src/lib.rs:159 *)
Theorem C04_utf8_bser_unchanged : forall bs c, site_bser_unchanged bs = Some c -> ascii c.
Proof. exact C04_Utf8.utf8_bser_unchanged. Qed.
Check C04_utf8_bser_unchanged : forall bs c, site_bser_unchanged bs = Some c -> ascii c.
Print Assumptions C04_utf8_bser_unchanged.

(* url/src/parser.rs:1843 fast_u16_to_str: ASCII digits, between 1 and 5 of them (the 5-byte buffer is
   never overrun, `index -= 1` never underflows) *)
Theorem C04_utf8_fast_u16_to_str : forall p, p < 65536 ->
  Forall (fun c => is_digit c = true) (site_fast_u16_to_str p) /\ ascii (site_fast_u16_to_str p)
  /\ (1 <= length (site_fast_u16_to_str p) <= 5)%nat.
Proof. exact C04_Utf8.utf8_fast_u16_to_str. Qed.
Check C04_utf8_fast_u16_to_str : forall p, p < 65536 ->
  Forall (fun c => is_digit c = true) (site_fast_u16_to_str p) /\ ascii (site_fast_u16_to_str p)
  /\ (1 <= length (site_fast_u16_to_str p) <= 5)%nat.
Print Assumptions C04_utf8_fast_u16_to_str.

(* every ASCII byte string is valid UTF-8 and decodes to itself (what turns `ascii` above into
   "valid UTF-8") *)
Theorem C04_utf8_ascii_valid : forall t, ascii t -> utf8_valid t = true /\ utf8_strict t = inl t.
Proof. intros t H. exact (conj (C04_Utf8.ascii_utf8_valid t H) (C04_Utf8.ascii_utf8_strict t H)). Qed.
Check C04_utf8_ascii_valid : forall t, ascii t -> utf8_valid t = true /\ utf8_strict t = inl t.
Print Assumptions C04_utf8_ascii_valid.

(* idna/src/uts46.rs:549, :669 (Passthrough => the input is reused as &str) and :834-1024 (slices of the
   input up to passthrough_up_to_extended, mixed_case).  Full statement (not proved): Passthrough
   implies an ASCII input.  Proved: the fastest tier, where the input is lower-case letters / dots. *)
Definition C04_utf8_uts46_statement : Prop :=
  forall A cfg ff p d deny hy k1 k2 w out1 out2, bytes d ->
    Uts46.process A cfg ff p d deny hy k1 k2 w = (Uts46.PPassthrough, out1, out2) -> ascii d.
Theorem C04_utf8_uts46_partial : forall A cfg ff p d deny hy k1 k2 w, bytes d -> Uts46.fast_tier d d = None ->
  Uts46.process A cfg ff p d deny hy k1 k2 w = (Uts46.PPassthrough, [], []) /\ ascii d.
Proof.
  intros A cfg ff p d deny hy k1 k2 w Hb H. destruct (C11.C11_passthrough_partial A cfg ff p d deny hy k1 k2 w Hb H) as (H1 & H2 & _).
  split; [exact H1|]. eapply Forall_impl; [|exact H2]. cbv beta. unfold Idna_Api.lower_or_dot, is_ascii. intros a [Ha|Ha]; [lia | rewrite Ha; reflexivity].
Qed.
Check C04_utf8_uts46_partial : forall A cfg ff p d deny hy k1 k2 w, bytes d -> Uts46.fast_tier d d = None ->
  Uts46.process A cfg ff p d deny hy k1 k2 w = (Uts46.PPassthrough, [], []) /\ ascii d.
Print Assumptions C04_utf8_uts46_partial.

(* beyond the fastest tier, for the fail-fast entry point: EVERY string Uts46::to_ascii returns - the borrowed input
   (Passthrough, uts46.rs:549: the from_utf8_unchecked site) or the owned output - is ASCII, hence valid UTF-8,
   for every byte input (invalid UTF-8 included), every deny list the API can build and every adapter with
   NvNoTrunc (normalize_validate never returns a proper prefix of its argument); from the C10 output theorem.
   STILL MISSING w.r.t. C04_utf8_uts46_statement: the mark-errors mode (to_unicode / to_user_interface Passthrough). *)
Theorem C04_utf8_uts46_partial2 : forall A cfg d deny hy dns b r,
  Idna_C10_Inner.NvNoTrunc A -> bytes d -> Idna_Hyp.valid_deny deny ->
  Uts46.to_ascii A cfg d deny hy dns = U32_c13.Ok (b, r) ->
  Forall (fun c => c < 128) r /\ (b = true -> r = d).
Proof.
  intros A cfg d deny hy dns b r HN Hb Hv H. split.
  - exact (C04_Uts46_Api.to_ascii_returns_ascii A cfg d deny hy dns b r HN Hb Hv H).
  - intros ->. exact (Idna_Api.to_ascii_borrow A cfg d deny hy dns r H).
Qed.
Check C04_utf8_uts46_partial2 : forall A cfg d deny hy dns b r,
  Idna_C10_Inner.NvNoTrunc A -> bytes d -> Idna_Hyp.valid_deny deny ->
  Uts46.to_ascii A cfg d deny hy dns = U32_c13.Ok (b, r) ->
  Forall (fun c => c < 128) r /\ (b = true -> r = d).
Print Assumptions C04_utf8_uts46_partial2.

(* ================================================================== 5. cost *)
(* each twin computes the original function, and its step count is linear *)
Theorem C04_cost_percent_encoding : forall S bs,
  fst (decode_c bs) = decode bs /\ snd (decode_c bs) <= 3 * nlen bs
  /\ fst (pe_chunks_c S bs) = pe_chunks S bs /\ snd (pe_chunks_c S bs) <= 5 * nlen bs + 1.
Proof.
  intros S bs. exact (conj (C04_Cost.decode_c_result bs) (conj (C04_Cost.decode_c_linear bs)
        (conj (C04_Cost.pe_chunks_c_result S bs) (C04_Cost.pe_chunks_c_linear S bs)))).
Qed.
Check C04_cost_percent_encoding : forall S bs,
  fst (decode_c bs) = decode bs /\ snd (decode_c bs) <= 3 * nlen bs
  /\ fst (pe_chunks_c S bs) = pe_chunks S bs /\ snd (pe_chunks_c S bs) <= 5 * nlen bs + 1.
Print Assumptions C04_cost_percent_encoding.

Theorem C04_cost_form_urlencoded : forall bs,
  fst (bser_chunks_c bs) = FormUrlencoded.bser_chunks bs /\ snd (bser_chunks_c bs) <= 5 * nlen bs + 1
  /\ fst (parse_next_c bs) = FormUrlencoded.parse_next bs
  /\ snd (parse_next_c bs) <= 5 * (nlen bs - nlen (C04_Cost.pnext_rest (FormUrlencoded.parse_next bs))) + 2.
Proof.
  intros bs. exact (conj (C04_Cost.bser_chunks_c_result bs) (conj (C04_Cost.bser_chunks_c_linear bs)
        (conj (C04_Cost.parse_next_c_result bs) (C04_Cost.parse_next_c_linear bs)))).
Qed.
Check C04_cost_form_urlencoded : forall bs,
  fst (bser_chunks_c bs) = FormUrlencoded.bser_chunks bs /\ snd (bser_chunks_c bs) <= 5 * nlen bs + 1
  /\ fst (parse_next_c bs) = FormUrlencoded.parse_next bs
  /\ snd (parse_next_c bs) <= 5 * (nlen bs - nlen (C04_Cost.pnext_rest (FormUrlencoded.parse_next bs))) + 2.
Print Assumptions C04_cost_form_urlencoded.

Theorem C04_cost_base64 : forall (W E : Type) (write : W -> list N -> W * option E) d input,
  fst (feed_c write d input) = Base64.feed write d input /\ snd (feed_c write d input) <= nlen input.
Proof. intros W E write d input. exact (C04_Cost.feed_c_spec write input d). Qed.
Check C04_cost_base64 : forall (W E : Type) (write : W -> list N -> W * option E) d input,
  fst (feed_c write d input) = Base64.feed write d input /\ snd (feed_c write d input) <= nlen input.
Print Assumptions C04_cost_base64.

(* fragment, query (any encoder that at most quadruples the length, e.g. UTF-8) and opaque path states *)
Theorem C04_cost_parser_tail : forall set enc iup ctx ser l, C04_Cost.enc_ok enc -> usv_list l ->
  fst (parse_fragment_loop_c ser [] l) = parse_fragment ser l
  /\ snd (parse_fragment_loop_c ser [] l) <= 13 * nlen l + 1
  /\ fst (parse_query_loop_c set enc iup ser [] l) = parse_query_loop set enc iup ser [] l
  /\ snd (parse_query_loop_c set enc iup ser [] l) <= 13 * nlen l + 1
  /\ fst (parse_cannot_be_a_base_path_c ctx ser l) = parse_cannot_be_a_base_path ctx ser l
  /\ snd (parse_cannot_be_a_base_path_c ctx ser l) <= 13 * nlen l + 1.
Proof.
  intros set enc iup ctx ser l He Hl.
  destruct (C04_Cost.parse_fragment_c_linear ser l Hl) as [A1 A2].
  destruct (C04_Cost.parse_query_c_linear set enc iup ser l He Hl) as [B1 B2].
  destruct (C04_Cost.parse_cbb_c_linear ctx ser l Hl) as [C1 C2]. tauto.
Qed.
Check C04_cost_parser_tail : forall set enc iup ctx ser l, C04_Cost.enc_ok enc -> usv_list l ->
  fst (parse_fragment_loop_c ser [] l) = parse_fragment ser l
  /\ snd (parse_fragment_loop_c ser [] l) <= 13 * nlen l + 1
  /\ fst (parse_query_loop_c set enc iup ser [] l) = parse_query_loop set enc iup ser [] l
  /\ snd (parse_query_loop_c set enc iup ser [] l) <= 13 * nlen l + 1
  /\ fst (parse_cannot_be_a_base_path_c ctx ser l) = parse_cannot_be_a_base_path ctx ser l
  /\ snd (parse_cannot_be_a_base_path_c ctx ser l) <= 13 * nlen l + 1.
Print Assumptions C04_cost_parser_tail.

(* the path state: the twin computes parse_path / PathSegmentsMut::extend ... *)
Theorem C04_cost_path_result : forall dbg ctx st hh ps ser l segs,
  fst (parse_path_c dbg ctx st hh ps ser l) = parse_path dbg ctx st hh ps ser l
  /\ fst (psm_extend_loop_c dbg st ps ser segs) = Setters.psm_extend_loop dbg st ps ser segs.
Proof.
  intros dbg ctx st hh ps ser l segs.
  exact (conj (C04_Cost.parse_path_c_result dbg ctx st hh ps ser l) (C04_Cost.psm_extend_loop_c_result dbg st ps segs ser)).
Qed.
Check C04_cost_path_result : forall dbg ctx st hh ps ser l segs,
  fst (parse_path_c dbg ctx st hh ps ser l) = parse_path dbg ctx st hh ps ser l
  /\ fst (psm_extend_loop_c dbg st ps ser segs) = Setters.psm_extend_loop dbg st ps ser segs.
Print Assumptions C04_cost_path_result.

(* ... and is NOT linear.  Full statement (false on the pinned code): a linear bound in the length of
   the serialization so far plus the input. *)
Definition C04_cost_path_statement : Prop :=
  exists a b, forall dbg ctx st ps l ser ss pend hh, usv_list l ->
    snd (parse_path_loop_c dbg ctx st ps l ser ss pend hh) <= a * (nlen ser + nlen pend + nlen l) + b.
(* finding F-C04-8: m ".." segments at the root of the path behind a '/'-free prefix of length L cost
   at least m * (L + 1) steps (last_slash_can_be_removed searches the whole serialization) ... *)
Theorem C04_8_dotdots_cost : forall pre dbg, C02_PathL1.no_byte 47 pre = true -> forall m hh,
  N.of_nat m * (nlen pre + 1)
  <= snd (parse_path_loop_c dbg CUrlParser STNotSpecial (nlen pre) (C04_CostPath.dotdots m) (pre ++ [47])
                            (nlen (pre ++ [47])) [] hh).
Proof. exact C04_CostPath.dotdots_cost. Qed.
Check C04_8_dotdots_cost : forall pre dbg, C02_PathL1.no_byte 47 pre = true -> forall m hh,
  N.of_nat m * (nlen pre + 1)
  <= snd (parse_path_loop_c dbg CUrlParser STNotSpecial (nlen pre) (C04_CostPath.dotdots m) (pre ++ [47])
                            (nlen (pre ++ [47])) [] hh).
Print Assumptions C04_8_dotdots_cost.
(* ... hence no linear bound holds *)
Theorem C04_8_refuted : forall a b : N, exists pre l dbg hh, usv_list l /\
  a * (nlen (pre ++ [47]) + nlen l) + b
  < snd (parse_path_loop_c dbg CUrlParser STNotSpecial (nlen pre) l (pre ++ [47]) (nlen (pre ++ [47])) [] hh).
Proof. exact C04_CostPath.path_cost_not_linear. Qed.
Check C04_8_refuted : forall a b : N, exists pre l dbg hh, usv_list l /\
  a * (nlen (pre ++ [47]) + nlen l) + b
  < snd (parse_path_loop_c dbg CUrlParser STNotSpecial (nlen pre) l (pre ++ [47]) (nlen (pre ++ [47])) [] hh).
Print Assumptions C04_8_refuted.

(* finding F-C04-6: n calls of push("a") on file:/// cost at least n^2 steps (the file branch of
   parse_path copies the whole path), on http://h/ at most 14 n + 1.  Full statement for all n kept as
   a Definition; proved for n = 50, 100, 200 by computation. *)
Definition C04_6_quadratic_statement : Prop :=
  forall n, N.of_nat n * N.of_nat n <= C04_CostPath.pushes_cost STFile 7 C04_CostPath.s_file_root n.
Theorem C04_6_refuted :
  (50 * 50 <= C04_CostPath.pushes_cost STFile 7 C04_CostPath.s_file_root 50
   /\ 100 * 100 <= C04_CostPath.pushes_cost STFile 7 C04_CostPath.s_file_root 100
   /\ 200 * 200 <= C04_CostPath.pushes_cost STFile 7 C04_CostPath.s_file_root 200
   /\ 3 * C04_CostPath.pushes_cost STFile 7 C04_CostPath.s_file_root 100
      <= C04_CostPath.pushes_cost STFile 7 C04_CostPath.s_file_root 200)
  /\ (C04_CostPath.pushes_cost STSpecialNotFile 8 C04_CostPath.s_http_root 50 <= 14 * 50 + 1
      /\ C04_CostPath.pushes_cost STSpecialNotFile 8 C04_CostPath.s_http_root 100 <= 14 * 100 + 1
      /\ C04_CostPath.pushes_cost STSpecialNotFile 8 C04_CostPath.s_http_root 200 <= 14 * 200 + 1).
Proof. exact (conj C04_CostPath.pushes_file_quadratic_50_100_200 C04_CostPath.pushes_http_linear_50_100_200). Qed.
Check C04_6_refuted :
  (50 * 50 <= C04_CostPath.pushes_cost STFile 7 C04_CostPath.s_file_root 50
   /\ 100 * 100 <= C04_CostPath.pushes_cost STFile 7 C04_CostPath.s_file_root 100
   /\ 200 * 200 <= C04_CostPath.pushes_cost STFile 7 C04_CostPath.s_file_root 200
   /\ 3 * C04_CostPath.pushes_cost STFile 7 C04_CostPath.s_file_root 100
      <= C04_CostPath.pushes_cost STFile 7 C04_CostPath.s_file_root 200)
  /\ (C04_CostPath.pushes_cost STSpecialNotFile 8 C04_CostPath.s_http_root 50 <= 14 * 50 + 1
      /\ C04_CostPath.pushes_cost STSpecialNotFile 8 C04_CostPath.s_http_root 100 <= 14 * 100 + 1
      /\ C04_CostPath.pushes_cost STSpecialNotFile 8 C04_CostPath.s_http_root 200 <= 14 * 200 + 1).
Print Assumptions C04_6_refuted.

(* ================================================================== 6. the Punycode cap *)
(* the caps are the documented 1000 / 2000; the unchecked internal encoder equals the checked one up
   to the cap; and check_label lets a non-ASCII label above the cap through only in mark-errors mode and
   with the error flag set (so the quadratic encoder never sees it; in fail-fast mode - to_ascii - it
   is rejected).  The public punycode::{encode, decode} functions have NO cap: finding F-C04-10. *)
Theorem C04_punycode_cap :
  T_IDNA_DECODE_MAX = 2000 /\ T_IDNA_ENCODE_MAX = 1000
  /\ (forall cfg s, usv_list s -> (length s <= 1000)%nat ->
        Punycode.encode_internal cfg s = Punycode.encode cfg s)
  /\ (forall A cfg ff hy lab he f1 f2 lab' he',
        Uts46.check_label A cfg ff hy lab he f1 f2 = Uts46.SOk (lab', he') ->
        Uts46.is_ascii_l lab' = false -> Uts46.PUNYCODE_ENCODE_MAX_INPUT_LENGTH < Uts46.len lab' ->
        ff = false /\ he' = true).
Proof.
  destruct C10.C10_limits as (_ & _ & H1 & H2). split; [exact H1|]. split; [exact H2|]. split.
  - intros cfg s Hu Hl. exact (proj1 (C13.C13_internal cfg s Hu Hl)).
  - exact C04_Puny.check_label_cap.
Qed.
Check C04_punycode_cap :
  T_IDNA_DECODE_MAX = 2000 /\ T_IDNA_ENCODE_MAX = 1000
  /\ (forall cfg s, usv_list s -> (length s <= 1000)%nat ->
        Punycode.encode_internal cfg s = Punycode.encode cfg s)
  /\ (forall A cfg ff hy lab he f1 f2 lab' he',
        Uts46.check_label A cfg ff hy lab he f1 f2 = Uts46.SOk (lab', he') ->
        Uts46.is_ascii_l lab' = false -> Uts46.PUNYCODE_ENCODE_MAX_INPUT_LENGTH < Uts46.len lab' ->
        ff = false /\ he' = true).
Print Assumptions C04_punycode_cap.

(* ================================================================== non-vacuity *)
Example C04_premises_hold :
  (* a non-special URL with a path goes through the class of C04_parse_no_panic_partial *)
  parse_url true toy_hp toy_hp toy_hd None None [97;58;47;98;47;46;46;47;99;63;113;35;102]
  = POk (mkUrl [97;58;47;99;63;113;35;102] 1 2 2 2 HI_None None 2 (Some 4) (Some 6))
  /\ site_pe_unchanged T_PATH [97; 98; 32; 99] = Some [97; 98]
  /\ site_lossy_reuse [195; 169] = Some [195; 169] /\ site_lossy_reuse [195] = None
  /\ site_fast_u16_to_str 65535 = [54; 53; 53; 51; 53]
  /\ decode_c [37; 52; 49; 37; 37; 122] = ([65; 37; 37; 122], 8)
  /\ snd (parse_path_loop_c true CUrlParser STNotSpecial 2 (C04_CostPath.dotdots 3) [97; 58; 47] 3 [] false) = 49.
Proof. vm_compute. repeat split; reflexivity. Qed.

(* the hypotheses of C04_parse_no_panic_partial2 hold of a parsed special base and a "../x" reference (and
   of a non-special URL with authority without base); the invariant of C04_path_state_total holds of the
   serialization "a://h/" with the segment behind the last '/' *)
Example C04_partial2_premises_hold :
  (exists b, parse_url true toy_hp toy_hp toy_hd None None [104;116;116;112;58;47;47;104;47;97;47;98;63;113] = POk b
             /\ C04_ParseTotal.base_ok b = true /\ known_c04_7 (Some b) w_c04_7_ref = false
             /\ parse_url true toy_hp toy_hp toy_hd None (Some b) w_c04_7_ref
                = POk (mkUrl [104;116;116;112;58;47;47;104;47;120] 4 7 7 8 HI_Domain None 8 None None))
  /\ known_c04_7 None [97;58;47;47;117;64;104;58;56;47;46;46;47;112] = false
  /\ C04_PathTotal.seg_inv 5 6 [97;58;47;47;104;47] 6.
Proof.
  split; [exists (mkUrl [104;116;116;112;58;47;47;104;47;97;47;98;63;113] 4 7 7 8 HI_Domain None 8 (Some 12) None);
          vm_compute; repeat split; reflexivity|].
  split; [vm_compute; reflexivity|]. unfold C04_PathTotal.seg_inv. vm_compute. repeat split; try discriminate; reflexivity.
Qed.

(* C04_parse_no_panic_partial3: a parsed file base joined with "../x" is outside known_c04_7b (and parses);
   the base of finding F-C04-7 joined with the same reference is inside; the same text parsed without a
   base is outside *)
Example C04_partial3_premises_hold :
  let fb := mkUrl [102;105;108;101;58;47;47;47;97;47;98] 4 7 7 7 HI_None None 7 None None in
  let b7 := mkUrl w_c04_7_base 4 7 7 7 HI_None None 7 None None in
  parse_url true toy_hp toy_hp toy_hd None None [102;105;108;101;58;47;47;47;97;47;98] = POk fb
  /\ C04_ParseTotal.base_ok fb = true /\ C04_ParseFile.known_c04_7b (Some fb) w_c04_7_ref = false
  /\ parse_url true toy_hp toy_hp toy_hd None (Some fb) w_c04_7_ref
     = POk (mkUrl [102;105;108;101;58;47;47;47;120] 4 7 7 7 HI_None None 7 None None)
  /\ C04_ParseTotal.base_ok b7 = true /\ C04_ParseFile.known_c04_7b (Some b7) w_c04_7_ref = true
  /\ C04_ParseFile.known_c04_7b None (w_c04_7_base ++ [47] ++ w_c04_7_ref) = false
  /\ C04_PathFile.path_inv 7 7 [102;105;108;101;58;47;47;47;67;58;47;120] 9.
Proof.
  cbv zeta. repeat (split; [vm_compute; reflexivity|]).
  right. unfold C04_PathFile.bad_seg. split; [lia|]. split; [lia|]. split; [vm_compute; discriminate|].
  exists 58. repeat split; try discriminate; reflexivity.
Qed.

(* C04_parse_panic_iff: the witness of F-C04-7 and its "%2E." spelling (also behind "file:") are inside known_c04_7x;
   a harmless first segment against the same base, and "../x" against file:///C: (the drive-letter arm fires),
   are outside known_c04_7x although inside known_c04_7b *)
Example C04_panic_iff_premises_hold :
  let b7 := mkUrl w_c04_7_base 4 7 7 7 HI_None None 7 None None in
  let bC := mkUrl [102;105;108;101;58;47;47;47;67;58] 4 7 7 7 HI_None None 7 None None in
  C04_ParseTotal.base_ok b7 = true /\ C04_ParseTotal.base_ok bC = true
  /\ C04_ParseFile7.known_c04_7x (Some b7) w_c04_7_ref = true
  /\ C04_ParseFile7.known_c04_7x (Some b7) [37;50;69;46] = true
  /\ C04_ParseFile7.known_c04_7x (Some b7) [102;105;108;101;58;46;46] = true
  /\ C04_ParseFile7.known_c04_7x (Some b7) [120] = false /\ C04_ParseFile.known_c04_7b (Some b7) [120] = true
  /\ C04_ParseFile7.known_c04_7x (Some bC) w_c04_7_ref = false /\ C04_ParseFile.known_c04_7b (Some bC) w_c04_7_ref = true
  /\ parse_url true toy_hp toy_hp toy_hd None (Some bC) w_c04_7_ref
     = POk (mkUrl [102;105;108;101;58;47;47;47;67;58;47;120] 4 7 7 7 HI_None None 7 None None).
Proof. cbv zeta. vm_compute. repeat split; reflexivity. Qed.

(* C04_no_panic_setters2: a parsed URL with query, an editing session on it, and set_host(None) outside known_c04_1 *)
Example C04_setters2_premises_hold :
  let u := mkUrl [104;116;116;112;58;47;47;104;47;97;47;98;63;113] 4 7 7 8 HI_Domain None 8 (Some 12) None in
  wf_b u = true /\ C04_SetPath.psm_assert_fails u = false /\ C04_SetHost.known_c04_1 u = false
  /\ Setters.path_segments_session true u [Setters.PPop; Setters.PPush [46; 46]; Setters.PPush [99; 47; 63]; Setters.PExtend [[100]; []]]
     = Some (mkUrl [104;116;116;112;58;47;47;104;47;97;47;99;37;50;70;37;51;70;47;100;47;63;113] 4 7 7 8 HI_Domain None 8 (Some 21) None,
             Setters.SOk)
  /\ Setters.set_path true u [46;46;47;120;63] = Some (mkUrl [104;116;116;112;58;47;47;104;47;120;37;51;70;63;113] 4 7 7 8 HI_Domain None 8 (Some 13) None).
Proof. cbv zeta. vm_compute. repeat split; reflexivity. Qed.

(* C04_no_panic_uts46_partial2 / C04_utf8_uts46_partial2: the toy adapter of Idna_Known (identity normalizers on the
   witness inputs) meets NvNoTrunc; a mixed input goes through the whole pipeline without panic *)
Example C04_uts46_premises_hold :
  Idna_C10_Inner.NvNoTrunc Idna_Known.toy
  /\ Uts46.to_ascii Idna_Known.toy true [98; 195; 188; 99; 104; 101; 114; 46; 100; 101] Uts46.DENY_EMPTY Uts46.HAllow Uts46.DIgnore
     = U32_c13.Ok (false, [120; 110; 45; 45; 98; 99; 104; 101; 114; 45; 107; 118; 97; 46; 100; 101]).
Proof. split; [exact Idna_C10_Walk.toy_notrunc | vm_compute; reflexivity]. Qed.

(* ===== uts46 output walks (task idna3) ===== *)
From RU Require Proofs.Idna_WalkFun Proofs.Idna_WalkInv Proofs.Idna_WalkApi Proofs.Idna_WalkNoPanic Proofs.Idna_WalkEnc Proofs.Idna_WalkDepr.

(* idna/src/uts46.rs:549 / :669 - the from_utf8_unchecked sites behind Passthrough.  C04_utf8_uts46_statement IN FULL:
   in every mode (fail-fast or mark-errors, every label-display policy, any sinks), for every byte input (invalid
   UTF-8 included), every deny list / hyphen mode and EVERY adapter (no premise), Passthrough is returned only for
   an ASCII input; hence the &str handed back is valid UTF-8 (C04_utf8_ascii_valid). *)
Theorem C04_utf8_uts46 : C04_utf8_uts46_statement.
Proof. exact Idna_WalkApi.passthrough_ascii_input. Qed.
Check C04_utf8_uts46 : forall A cfg ff p d deny hy k1 k2 w out1 out2, bytes d ->
  Uts46.process A cfg ff p d deny hy k1 k2 w = (Uts46.PPassthrough, out1, out2) -> ascii d.
Print Assumptions C04_utf8_uts46.

(* every string Uts46::to_ascii returns is ASCII - as C04_utf8_uts46_partial2, now for EVERY adapter and every deny
   list value (the premises NvNoTrunc and valid_deny are gone): from the functional description of the first walk *)
Theorem C04_utf8_uts46_to_ascii : forall A cfg d deny hy dns b r, bytes d ->
  Uts46.to_ascii A cfg d deny hy dns = U32_c13.Ok (b, r) -> ascii r /\ (b = true -> r = d).
Proof.
  intros A cfg d deny hy dns b r Hb H. split.
  - exact (Idna_WalkNoPanic.to_ascii_returns_ascii_all A cfg d deny hy dns b r Hb H).
  - intros ->. exact (Idna_Api.to_ascii_borrow A cfg d deny hy dns r H).
Qed.
Check C04_utf8_uts46_to_ascii : forall A cfg d deny hy dns b r, bytes d ->
  Uts46.to_ascii A cfg d deny hy dns = U32_c13.Ok (b, r) -> ascii r /\ (b = true -> r = d).
Print Assumptions C04_utf8_uts46_to_ascii.

(* C04_no_panic_uts46_statement with the RIGHT adapter premises.  The statement as first written assumes AdapterOK,
   which is not enough (next theorem); what is needed is AdapterNP (no normalizer output is U+200F or >= 2^32; sampled
   by the harness) and AdapterUSV (the normalizers return Unicode scalar values: true by type, they yield `char`s;
   sampled by the harness as `adapterusv`). *)
Definition C04_no_panic_uts46_statement2 : Prop :=
  forall A cfg d deny hy dns p, C04_Uts46_Inner.AdapterNP A -> Idna_WalkEnc.AdapterUSV A -> bytes d ->
    (forall site, Uts46.to_ascii A cfg d deny hy dns <> U32_c13.Panic site)
    /\ (Idna_Known.Known_C11 A cfg d deny hy = false ->
        forall site, Uts46.to_user_interface A cfg d deny hy p <> Uts46.UIPanic site).

(* IN FULL: Uts46::to_ascii never panics (in fail-fast mode Known_C11 is irrelevant), and outside the exact class
   Known_C11 of finding F-C11-2 to_user_interface / to_unicode never panic - for every byte input, every deny list
   value, hyphen mode, DNS-length mode and label-display policy, with and without debug assertions.  Covers
   process_inner (C04_no_panic_uts46_partial2), the debug assertions 782 / 789, every site of the two output walks
   (805, 810, 813, 830, 844, 852, 885, 899, 928, 933, 949, 992), the unreachable!() behind the Punycode encoder (445:
   every label that is encoded is at most 1000 scalar values long by the cap of check_label, C13_internal), to_ascii's
   debug assertion 468 (the checked text is ASCII) and the unreachable SinkError arms 569 / 674. *)
Theorem C04_no_panic_uts46 : C04_no_panic_uts46_statement2.
Proof. intros A cfg d deny hy dns p HN HU Hb. exact (Idna_WalkEnc.uts46_no_panic A cfg d deny hy dns p HN HU Hb). Qed.
Check C04_no_panic_uts46 : forall A cfg d deny hy dns p, C04_Uts46_Inner.AdapterNP A -> Idna_WalkEnc.AdapterUSV A -> bytes d ->
    (forall site, Uts46.to_ascii A cfg d deny hy dns <> U32_c13.Panic site)
    /\ (Idna_Known.Known_C11 A cfg d deny hy = false ->
        forall site, Uts46.to_user_interface A cfg d deny hy p <> Uts46.UIPanic site).
Print Assumptions C04_no_panic_uts46.

(* the same for Uts46::process itself with infallible sinks (both error modes, with or without ASCII sink): it ends in
   Passthrough, WroteToSink or ValidityError *)
Theorem C04_no_panic_uts46_process : forall A cfg ff p d deny hy w,
  C04_Uts46_Inner.AdapterNP A -> Idna_WalkEnc.AdapterUSV A -> bytes d ->
  (ff = false -> Idna_Known.Known_C11 A cfg d deny hy = false) ->
  match fst (fst (Uts46.process A cfg ff p d deny hy None None w)) with
  | Uts46.PPanic _ | Uts46.PSinkError => False | _ => True end.
Proof. exact Idna_WalkEnc.uts46_process_no_panic. Qed.
Check C04_no_panic_uts46_process : forall A cfg ff p d deny hy w,
  C04_Uts46_Inner.AdapterNP A -> Idna_WalkEnc.AdapterUSV A -> bytes d ->
  (ff = false -> Idna_Known.Known_C11 A cfg d deny hy = false) ->
  match fst (fst (Uts46.process A cfg ff p d deny hy None None w)) with
  | Uts46.PPanic _ | Uts46.PSinkError => False | _ => True end.
Print Assumptions C04_no_panic_uts46_process.

(* the statement as first written (premise AdapterOK) is FALSE of the model: the adapter that lower-cases ASCII
   letters and is the identity otherwise meets every field of AdapterOK, and to_ascii("U+200F") fails
   debug_assert_ne!(c, RLM) in is_bidi (uts46.rs:1650).  Not a defect of the crate: the real idna_adapter maps U+200F
   to U+FFFD (AdapterNP, sampled). *)
Theorem C04_no_panic_uts46_statement_refuted : ~ C04_no_panic_uts46_statement.
Proof.
  intros H. destruct Idna_WalkEnc.lowid_panics as [Hk Hp].
  assert (Hb : bytes [226; 128; 143]) by (repeat constructor; unfold is_byte; lia).
  destruct (H Idna_WalkEnc.lowid true [226; 128; 143] Uts46.DENY_EMPTY Uts46.HAllow Uts46.DIgnore Uts46.never_unicode
              Idna_WalkEnc.lowid_ok Hb Hk) as [H1 _].
  exact (H1 1650 Hp).
Qed.
Check C04_no_panic_uts46_statement_refuted : ~ C04_no_panic_uts46_statement.
Print Assumptions C04_no_panic_uts46_statement_refuted.

(* finding F-C04-13, decided: the deprecated Idna::to_ascii(domain, out) (deprecated.rs) panics EXACTLY when debug
   assertions are on, verify_dns_length is configured, the processing wrote its output (the name is not passed
   through) and the text already in `out` is not ASCII - for every &str domain, every configuration, every `out`
   (C04_13_exact without its premise on process; no other panic site of the wrapper or of process is reachable) *)
Theorem C04_13_panic_iff : forall A cfg c domain out,
  C04_Uts46_Inner.AdapterNP A -> Idna_WalkEnc.AdapterUSV A -> usv_list domain ->
  (U32_c13.is_panic (Uts46.idna_to_ascii A cfg c domain out) = true <->
   cfg = true /\ Uts46.cfg_verify_dns_length c = true /\ Uts46.is_ascii_l out = false /\
   exists s x, Uts46.process A cfg true Uts46.never_unicode
                 (utf8_encode (Uts46.map_transitional domain (Uts46.transitional_processing c)))
                 (Uts46.config_deny_list c) (Uts46.config_hyphens c) None None false = (Uts46.PWroteToSink, s, x)).
Proof. intros A cfg c domain out HN HU Hd. exact (Idna_WalkDepr.idna_to_ascii_panic_iff A cfg HN HU c domain out Hd). Qed.
Check C04_13_panic_iff : forall A cfg c domain out,
  C04_Uts46_Inner.AdapterNP A -> Idna_WalkEnc.AdapterUSV A -> usv_list domain ->
  (U32_c13.is_panic (Uts46.idna_to_ascii A cfg c domain out) = true <->
   cfg = true /\ Uts46.cfg_verify_dns_length c = true /\ Uts46.is_ascii_l out = false /\
   exists s x, Uts46.process A cfg true Uts46.never_unicode
                 (utf8_encode (Uts46.map_transitional domain (Uts46.transitional_processing c)))
                 (Uts46.config_deny_list c) (Uts46.config_hyphens c) None None false = (Uts46.PWroteToSink, s, x)).
Print Assumptions C04_13_panic_iff.

(* the other entry points of the idna crate: deprecated Idna::to_unicode, and the lib.rs wrappers domain_to_ascii,
   domain_to_ascii_strict, domain_to_unicode - no panic (mark-errors ones: outside Known_C11 of the processed text) *)
Theorem C04_no_panic_idna_wrappers : forall A cfg, C04_Uts46_Inner.AdapterNP A -> Idna_WalkEnc.AdapterUSV A ->
  (forall c domain out, usv_list domain ->
     Idna_Known.Known_C11 A cfg (utf8_encode (Uts46.map_transitional domain (Uts46.transitional_processing c)))
       (Uts46.config_deny_list c) (Uts46.config_hyphens c) = false ->
     forall site, Uts46.idna_to_unicode A cfg c domain out <> U32_c13.Panic site)
  /\ (forall domain, usv_list domain ->
       (forall site, Uts46.domain_to_ascii A cfg domain <> U32_c13.Panic site) /\
       (forall site, Uts46.domain_to_ascii_strict A cfg domain <> U32_c13.Panic site) /\
       (Idna_Known.Known_C11 A cfg (utf8_encode domain) Uts46.DENY_EMPTY Uts46.HAllow = false ->
        forall site, Uts46.domain_to_unicode A cfg domain <> Uts46.UIPanic site)).
Proof.
  intros A cfg HN HU. split.
  - intros c domain out Hd HK. exact (Idna_WalkDepr.idna_to_unicode_no_panic A cfg HN HU c domain out Hd HK).
  - intros domain Hd. exact (Idna_WalkDepr.lib_wrappers_no_panic A cfg HN HU domain Hd).
Qed.
Check C04_no_panic_idna_wrappers : forall A cfg, C04_Uts46_Inner.AdapterNP A -> Idna_WalkEnc.AdapterUSV A ->
  (forall c domain out, usv_list domain ->
     Idna_Known.Known_C11 A cfg (utf8_encode (Uts46.map_transitional domain (Uts46.transitional_processing c)))
       (Uts46.config_deny_list c) (Uts46.config_hyphens c) = false ->
     forall site, Uts46.idna_to_unicode A cfg c domain out <> U32_c13.Panic site)
  /\ (forall domain, usv_list domain ->
       (forall site, Uts46.domain_to_ascii A cfg domain <> U32_c13.Panic site) /\
       (forall site, Uts46.domain_to_ascii_strict A cfg domain <> U32_c13.Panic site) /\
       (Idna_Known.Known_C11 A cfg (utf8_encode domain) Uts46.DENY_EMPTY Uts46.HAllow = false ->
        forall site, Uts46.domain_to_unicode A cfg domain <> Uts46.UIPanic site)).
Print Assumptions C04_no_panic_idna_wrappers.

(* C04_no_panic_uts46: a concrete adapter meets AdapterNP and AdapterUSV (the toy adapter with non-scalar values and
   U+200F replaced by U+FFFD); a mixed name goes through both entry points, one with an over-long label is rejected *)
Example C04_uts46_walk_premises_hold :
  C04_Uts46_Inner.AdapterNP Idna_WalkEnc.toy_s /\ Idna_WalkEnc.AdapterUSV Idna_WalkEnc.toy_s
  /\ Uts46.to_ascii Idna_WalkEnc.toy_s true [98; 195; 188; 99; 104; 101; 114; 46; 68; 69] Uts46.DENY_EMPTY Uts46.HAllow Uts46.DVerify
     = U32_c13.Ok (false, [120; 110; 45; 45; 98; 99; 104; 101; 114; 45; 107; 118; 97; 46; 100; 101])
  /\ Uts46.to_unicode Idna_WalkEnc.toy_s true [226; 128; 143; 46; 120; 110; 45; 45; 98; 99; 104; 101; 114; 45; 107; 118; 97] Uts46.DENY_EMPTY Uts46.HAllow
     = Uts46.UI false [65533; 46; 98; 252; 99; 104; 101; 114] true.
Proof. split; [exact Idna_WalkEnc.toy_s_np|]. split; [exact Idna_WalkEnc.toy_s_usv|]. vm_compute. split; reflexivity. Qed.

(* ===== reached records, the inventory table, cost of the remaining states (task c04fin) ===== *)
From RU Require Proofs.C04_Chain Proofs.C03_ReachParts Proofs.C03_ReachHist Proofs.C05_CompSteps3.

(* Url::parse (no base): never a panic - every input, any host functions, both configurations (the class of F-C04-7
   needs a file base) *)
Theorem C04_parse_no_base_no_panic : forall dbg hp hpo hd ovr input, parse_url dbg hp hpo hd ovr None input <> PPanic.
Proof. exact C04_Chain.parse_no_base_no_panic. Qed.
Check C04_parse_no_base_no_panic : forall dbg hp hpo hd ovr input, parse_url dbg hp hpo hd ovr None input <> PPanic.
Print Assumptions C04_parse_no_base_no_panic.

(* C04_parse_panic_iff WITHOUT its base_ok premise when the base is itself a result of Url::parse / Url::join
   (PJ dbg' hp hpo hd: parse without base, or parse against any record of PJ; the chain may come from either build
   configuration): base_ok reproduces itself (C05_parse_base_ok).  Only hypothesis: HostWf on the host functions
   (Display text of a host non-empty, not starting with ':' / '@', not ending in '/'; C09 discharges it for the
   host model).  Second part: no panic in a release build, and none when the base is not a file URL. *)
Theorem C04_join_panic_iff_reached : forall hp hpo hd, C03_ReachParts.HostWf hp hpo hd ->
  forall dbg dbg' ovr b input, C05_CompSteps3.PJ dbg' hp hpo hd b ->
  (parse_url dbg hp hpo hd ovr (Some b) input = PPanic <-> dbg = true /\ C04_ParseFile7.known_c04_7x (Some b) input = true)
  /\ (dbg = false \/ list_eqb (b_scheme b) s_file = false -> parse_url dbg hp hpo hd ovr (Some b) input <> PPanic).
Proof.
  intros hp hpo hd HW dbg dbg' ovr b input R.
  exact (conj (C04_Chain.join_panic_iff_pj hp hpo hd HW dbg dbg' ovr b input R)
              (C04_Chain.join_no_panic_pj hp hpo hd HW dbg dbg' ovr b input R)).
Qed.
Check C04_join_panic_iff_reached : forall hp hpo hd, C03_ReachParts.HostWf hp hpo hd ->
  forall dbg dbg' ovr b input, C05_CompSteps3.PJ dbg' hp hpo hd b ->
  (parse_url dbg hp hpo hd ovr (Some b) input = PPanic <-> dbg = true /\ C04_ParseFile7.known_c04_7x (Some b) input = true)
  /\ (dbg = false \/ list_eqb (b_scheme b) s_file = false -> parse_url dbg hp hpo hd ovr (Some b) input <> PPanic).
Print Assumptions C04_join_panic_iff_reached.

(* the premises wf_b / wfh / base_ok of C04_no_panic_accessors, C04_no_panic_setters, C04_no_panic_setters2 and
   C04_parse_panic_iff hold of every record of a parse / join chain (PJ) and wf_b / wfh of every record of a history of
   reach03 (parse, join, set_fragment, set_query, set_port, set_password, set_username, set_scheme, set_host(None),
   set_ip_host, set_path, path_segments_mut sessions: Proofs/C03_ReachHist.v); third part: the mutators with an exact
   panic class, on a reached receiver *)
Theorem C04_reached_premises : forall hp hpo hd, C03_ReachParts.HostWf hp hpo hd ->
  (forall dbg u, C05_CompSteps3.PJ dbg hp hpo hd u -> wf_b u = true /\ C06_Main.wfh u /\ C04_ParseTotal.base_ok u = true)
  /\ (forall dbg u, C03_ReachHist.reach03 dbg hp hpo hd u -> wf_b u = true /\ C06_Main.wfh u)
  /\ (forall dbg dbg' u, C03_ReachHist.reach03 dbg' hp hpo hd u ->
        (forall p, exists u', Setters.set_path dbg u p = Some u')
        /\ (forall ops, Setters.path_segments_session dbg u ops = None <-> dbg = true /\ C04_SetPath.psm_assert_fails u = true)
        /\ (forall h, Setters.set_host dbg hp hpo hd u h = None <-> dbg = true /\ h = None /\ C04_SetHost.known_c04_1 u = true)
        /\ (forall h, exists r, Setters.set_ip_host dbg hd u h = Some r)).
Proof.
  intros hp hpo hd HW.
  exact (conj (C04_Chain.pj_wf hp hpo hd HW) (conj (C04_Chain.reached_wf hp hpo hd HW) (C04_Chain.reached_setters hp hpo hd HW))).
Qed.
Check C04_reached_premises : forall hp hpo hd, C03_ReachParts.HostWf hp hpo hd ->
  (forall dbg u, C05_CompSteps3.PJ dbg hp hpo hd u -> wf_b u = true /\ C06_Main.wfh u /\ C04_ParseTotal.base_ok u = true)
  /\ (forall dbg u, C03_ReachHist.reach03 dbg hp hpo hd u -> wf_b u = true /\ C06_Main.wfh u)
  /\ (forall dbg dbg' u, C03_ReachHist.reach03 dbg' hp hpo hd u ->
        (forall p, exists u', Setters.set_path dbg u p = Some u')
        /\ (forall ops, Setters.path_segments_session dbg u ops = None <-> dbg = true /\ C04_SetPath.psm_assert_fails u = true)
        /\ (forall h, Setters.set_host dbg hp hpo hd u h = None <-> dbg = true /\ h = None /\ C04_SetHost.known_c04_1 u = true)
        /\ (forall h, exists r, Setters.set_ip_host dbg hd u h = Some r)).
Print Assumptions C04_reached_premises.

From RU Require Proofs.C04_Rest Proofs.C04_Origin Proofs.C04_Table Proofs.C16_Origin.

(* Url::origin() / quirks::origin / origin::url_origin, the panic outcome of the model EXACTLY (Proofs/C04_Origin.v): on a
   well-formed record url_origin panics (url.host().unwrap()) iff the record ITSELF has one of the five tuple schemes
   (ftp, http, https, ws, wss) and no host - a record wf_b allows and the parser never produces (a special URL always
   gets a non-empty host); the URLs met in the blob: recursion are parse results, and the origin of a parse result never
   panics; the model's recursion fuel never runs out (C16_fuel).  Hypothesis HostWf (parse results satisfy wf_b).
   NOT expressible as a panic outcome: the Rust recursion is on the machine stack - finding F-C04-11 (abort by stack
   overflow at about 36000 levels of blob: nesting) stays a known class, see C04_linear_statement. *)
Theorem C04_origin_panic_iff : forall dbg hp ho hd, C03_ReachParts.HostWf hp ho hd ->
  (forall c u, wf_b u = true ->
     (Origin.url_origin dbg hp ho hd c u = Origin.OPanic <-> C04_Origin.tuple_no_host_b u = true))
  /\ (forall c p v, Origin.url_parse dbg hp ho hd p = POk v -> Origin.url_origin dbg hp ho hd c v <> Origin.OPanic)
  /\ (forall c u, Origin.url_origin dbg hp ho hd c u <> Origin.OFuel).
Proof. exact (C04_Table.claims_hold C04_Table.P_origin). Qed.
Check C04_origin_panic_iff : forall dbg hp ho hd, C03_ReachParts.HostWf hp ho hd ->
  (forall c u, wf_b u = true ->
     (Origin.url_origin dbg hp ho hd c u = Origin.OPanic <-> C04_Origin.tuple_no_host_b u = true))
  /\ (forall c p v, Origin.url_parse dbg hp ho hd p = POk v -> Origin.url_origin dbg hp ho hd c v <> Origin.OPanic)
  /\ (forall c u, Origin.url_origin dbg hp ho hd c u <> Origin.OFuel).
Print Assumptions C04_origin_panic_iff.

(* the quirks:: module (Proofs/C04_Rest.v): the nine getters on a wf_b record and the nine setters on a wfh record never
   panic - any argument (set_search: a &str, i.e. scalar values), any host functions, both configurations.  The setters
   are wrappers over the Url mutators (C04_no_panic_setters / setters2), Parser::parse_host and Parser::parse_port
   (C04_no_panic_authority_states); set_href is Url::parse (C04_parse_no_base_no_panic). *)
Theorem C04_no_panic_quirks :
  (forall dbg u, wf_b u = true ->
     (exists s, Setters.q_protocol u = Some s) /\ (exists s, Setters.q_username dbg u = Some s)
     /\ (exists s, Setters.q_password dbg u = Some s) /\ (exists s, Setters.q_host dbg u = Some s)
     /\ (exists s, Setters.q_hostname u = Some s) /\ (exists s, Setters.q_port dbg u = Some s)
     /\ (exists s, Setters.q_pathname u = Some s) /\ (exists s, Setters.q_search dbg u = Some s)
     /\ (exists s, Setters.q_hash dbg u = Some s))
  /\ (forall dbg hp hpo hd u, C06_Main.wfh u ->
     (forall v, exists r, Setters.q_set_protocol dbg u v = Some r)
     /\ (forall v, exists r, Setters.q_set_username dbg u v = Some r)
     /\ (forall v, exists r, Setters.q_set_password dbg u v = Some r)
     /\ (forall v, exists r, Setters.q_set_host dbg hp hpo hd u v = Some r)
     /\ (forall v, exists r, Setters.q_set_hostname dbg hp hpo hd u v = Some r)
     /\ (forall v, exists r, Setters.q_set_port dbg u v = Some r)
     /\ (forall v, exists u', Setters.q_set_pathname dbg u v = Some u')
     /\ (forall v, usv_list v -> exists u', Setters.q_set_search dbg u v = Some u')
     /\ (forall v, exists u', Setters.q_set_hash dbg u v = Some u')).
Proof. exact (conj C04_Rest.quirks_getters_total C04_Rest.quirks_setters_total). Qed.
Check C04_no_panic_quirks :
  (forall dbg u, wf_b u = true ->
     (exists s, Setters.q_protocol u = Some s) /\ (exists s, Setters.q_username dbg u = Some s)
     /\ (exists s, Setters.q_password dbg u = Some s) /\ (exists s, Setters.q_host dbg u = Some s)
     /\ (exists s, Setters.q_hostname u = Some s) /\ (exists s, Setters.q_port dbg u = Some s)
     /\ (exists s, Setters.q_pathname u = Some s) /\ (exists s, Setters.q_search dbg u = Some s)
     /\ (exists s, Setters.q_hash dbg u = Some s))
  /\ (forall dbg hp hpo hd u, C06_Main.wfh u ->
     (forall v, exists r, Setters.q_set_protocol dbg u v = Some r)
     /\ (forall v, exists r, Setters.q_set_username dbg u v = Some r)
     /\ (forall v, exists r, Setters.q_set_password dbg u v = Some r)
     /\ (forall v, exists r, Setters.q_set_host dbg hp hpo hd u v = Some r)
     /\ (forall v, exists r, Setters.q_set_hostname dbg hp hpo hd u v = Some r)
     /\ (forall v, exists r, Setters.q_set_port dbg u v = Some r)
     /\ (forall v, exists u', Setters.q_set_pathname dbg u v = Some u')
     /\ (forall v, usv_list v -> exists u', Setters.q_set_search dbg u v = Some u')
     /\ (forall v, exists u', Setters.q_set_hash dbg u v = Some u')).
Print Assumptions C04_no_panic_quirks.

(* "NO PUBLIC FUNCTION PANICS", FUNCTION BY FUNCTION (Proofs/C04_Table.v).  C04_Table.table has one row per entry of the
   regenerated inventory of the 167 `pub fn`s of the five crates: (crate, name, kind, claim, name of the pinned theorem).
   C04_Table.claim i is the statement on the Gallina models that decides the rows carrying claim i (37 claims: the
   theorems of this file and of C03 / C06 / C09 / C13 / C14 / C15 / C17 / C19 / C20, plus new ones for the views,
   make_relative, the file-path conversions, Origin::new_opaque, uts46::verify_dns_length).  Kinds: KTheorem (no panic under
   the stated well-formedness premise), KExact (panics exactly in a stated class: iff), KOutside (no panic outside a
   named known class that has a witness), KByType (plain data / total model function without panic outcome),
   KDocumented (documented panic on a function without model), KHarness (no model).
     (1) the key columns of the table ARE the regenerated inventory T_C04_API: a new `pub fn` in /repo breaks this
         conjunct until a row - a decision - has been added;
     (2) every claim holds, hence the claim of every row;
     (3) exactly the KByType / KDocumented / KHarness rows carry the trivial claim;
     (4) no KByType function has a panic macro of its own in the regenerated panic-site inventory (two listed exceptions);
     (5) the census: 76 KTheorem, 20 KExact (Url::check_invariants since task c04fin2: C04_check_invariants), 17 KOutside,
         48 KByType, 2 KDocumented, 4 KHarness. *)
Theorem C04_no_panic_inventory :
  map C04_Table.row_key C04_Table.table = T_C04_API
  /\ ((forall i, C04_Table.claim i) /\ Forall (fun r => C04_Table.claim (C04_Table.r_claim r)) C04_Table.table)
  /\ forallb (fun r => Bool.eqb (C04_Table.trivial_kind (C04_Table.r_kind r))
                                (C04_Table.claim_eqb_trivial (C04_Table.r_claim r))) C04_Table.table = true
  /\ forallb (fun r => negb (C04_Table.kind_eqb (C04_Table.r_kind r) C04_Table.KByType)
                       || negb (C04_Table.has_panic_macro (C04_Table.r_name r))
                       || existsb (String.eqb (C04_Table.r_name r)) C04_Table.bytype_exceptions) C04_Table.table = true
  /\ (length C04_Table.table = 167%nat /\ C04_Table.count_kind C04_Table.KTheorem = 76%nat
      /\ C04_Table.count_kind C04_Table.KExact = 20%nat /\ C04_Table.count_kind C04_Table.KOutside = 17%nat
      /\ C04_Table.count_kind C04_Table.KByType = 48%nat /\ C04_Table.count_kind C04_Table.KDocumented = 2%nat
      /\ C04_Table.count_kind C04_Table.KHarness = 4%nat).
Proof.
  exact (conj C04_Table.table_complete (conj (conj C04_Table.claims_hold C04_Table.table_sound)
        (conj C04_Table.kinds_consistent (conj C04_Table.bytype_no_panic_macro C04_Table.table_counts)))).
Qed.
Check C04_no_panic_inventory :
  map C04_Table.row_key C04_Table.table = T_C04_API
  /\ ((forall i, C04_Table.claim i) /\ Forall (fun r => C04_Table.claim (C04_Table.r_claim r)) C04_Table.table)
  /\ forallb (fun r => Bool.eqb (C04_Table.trivial_kind (C04_Table.r_kind r))
                                (C04_Table.claim_eqb_trivial (C04_Table.r_claim r))) C04_Table.table = true
  /\ forallb (fun r => negb (C04_Table.kind_eqb (C04_Table.r_kind r) C04_Table.KByType)
                       || negb (C04_Table.has_panic_macro (C04_Table.r_name r))
                       || existsb (String.eqb (C04_Table.r_name r)) C04_Table.bytype_exceptions) C04_Table.table = true
  /\ (length C04_Table.table = 167%nat /\ C04_Table.count_kind C04_Table.KTheorem = 76%nat
      /\ C04_Table.count_kind C04_Table.KExact = 20%nat /\ C04_Table.count_kind C04_Table.KOutside = 17%nat
      /\ C04_Table.count_kind C04_Table.KByType = 48%nat /\ C04_Table.count_kind C04_Table.KDocumented = 2%nat
      /\ C04_Table.count_kind C04_Table.KHarness = 4%nat).
Print Assumptions C04_no_panic_inventory.

(* ================================================================== cost of the remaining states (task c04fin) *)
From RU Require Proofs.C04_CostAuth Proofs.C04_CostMime Proofs.C04_CostIdna.

(* the AUTHORITY states of the URL parser (Proofs/C04_CostAuth.v; cost semantics of Model/Cost.v).
   userinfo: the two passes (search for the last '@', then the encoding pass) - twins equal to the model functions,
   at most 14 |input| + 4 steps.  host and port: the scans are twins of host_scan / file_host_scan / parse_port_loop;
   Host::parse / Host::parse_opaque and Display are parameters of the parser model, so their cost enters as the
   parameters hpc / hpoc (steps of the two host parsers on a text - Host::parse contains the IDNA processing) and the
   length of the Display text: the state costs at most 3 |input| + 49 + the cost of the host parser on the host text
   (a piece of the input) + the Display text; with host functions that are linear (a, b; Display d, e) it is linear. *)
Theorem C04_cost_authority :
  (forall special l count last,
     fst (C04_CostAuth.scan_last_at_c special l count last) = scan_last_at special l count last
     /\ snd (C04_CostAuth.scan_last_at_c special l count last) <= nlen l + 1)
  /\ (forall l n ser uend hpw hun, usv_list l ->
     fst (C04_CostAuth.userinfo_loop_c l n ser uend hpw hun) = userinfo_loop l n ser uend hpw hun
     /\ snd (C04_CostAuth.userinfo_loop_c l n ser uend hpw hun) <= 13 * nlen l + 1)
  /\ (forall st ser l, usv_list l -> C04_CostAuth.parse_userinfo_cost st ser l <= 14 * nlen l + 4)
  /\ (forall special l inside acc,
     fst (C04_CostAuth.host_scan_c special inside acc l) = host_scan special inside acc l
     /\ snd (C04_CostAuth.host_scan_c special inside acc l) <= 2 * nlen l + 1)
  /\ (forall l acc,
     fst (C04_CostAuth.file_host_scan_c acc l) = file_host_scan acc l
     /\ snd (C04_CostAuth.file_host_scan_c acc l) <= 2 * nlen l + 1)
  /\ (forall ctx l port any,
     fst (C04_CostAuth.parse_port_loop_c ctx l port any) = parse_port_loop ctx l port any
     /\ snd (C04_CostAuth.parse_port_loop_c ctx l port any) <= nlen l + 1)
  /\ (forall hp hpo hd hpc hpoc ctx st l,
     nlen (C04_CostAuth.host_text st l) <= nlen l
     /\ C04_CostAuth.parse_host_and_port_cost hp hpo hd hpc hpoc ctx st l
        <= 3 * nlen l + 49 + hpc (C04_CostAuth.host_text st l) + hpoc (C04_CostAuth.host_text st l)
           + match parse_host hp hpo st l with POk (host, _) => nlen (hd host) | _ => 0 end)
  /\ (forall hp hpo hd hpc hpoc ctx st l a b d e,
     (forall t, hpc t <= a * nlen t + b) -> (forall t, hpoc t <= a * nlen t + b) ->
     (forall t h, hp t = Ok h \/ hpo t = Ok h -> nlen (hd h) <= d * nlen t + e) -> nlen (hd (HDomain [])) <= e ->
     C04_CostAuth.parse_host_and_port_cost hp hpo hd hpc hpoc ctx st l <= (3 + 2 * a + d) * nlen l + (49 + 2 * b + e)).
Proof.
  split; [exact C04_CostAuth.scan_last_at_c_spec|]. split; [exact C04_CostAuth.userinfo_loop_c_spec|].
  split; [exact C04_CostAuth.parse_userinfo_linear|].
  split; [intros special l inside acc; destruct (C04_CostAuth.host_scan_c_spec special l inside acc) as (H1 & H2 & _); exact (conj H1 H2)|].
  split; [intros l acc; destruct (C04_CostAuth.file_host_scan_c_spec l acc) as (H1 & H2 & _); exact (conj H1 H2)|].
  split; [exact C04_CostAuth.parse_port_loop_c_spec|].
  split; [intros hp hpo hd hpc hpoc ctx st l;
          exact (conj (C04_CostAuth.host_text_len hp hpo hpc hpoc st l) (C04_CostAuth.parse_host_and_port_cost_le hp hpo hd hpc hpoc ctx st l))|].
  exact C04_CostAuth.parse_host_and_port_linear.
Qed.
Check C04_cost_authority :
  (forall special l count last,
     fst (C04_CostAuth.scan_last_at_c special l count last) = scan_last_at special l count last
     /\ snd (C04_CostAuth.scan_last_at_c special l count last) <= nlen l + 1)
  /\ (forall l n ser uend hpw hun, usv_list l ->
     fst (C04_CostAuth.userinfo_loop_c l n ser uend hpw hun) = userinfo_loop l n ser uend hpw hun
     /\ snd (C04_CostAuth.userinfo_loop_c l n ser uend hpw hun) <= 13 * nlen l + 1)
  /\ (forall st ser l, usv_list l -> C04_CostAuth.parse_userinfo_cost st ser l <= 14 * nlen l + 4)
  /\ (forall special l inside acc,
     fst (C04_CostAuth.host_scan_c special inside acc l) = host_scan special inside acc l
     /\ snd (C04_CostAuth.host_scan_c special inside acc l) <= 2 * nlen l + 1)
  /\ (forall l acc,
     fst (C04_CostAuth.file_host_scan_c acc l) = file_host_scan acc l
     /\ snd (C04_CostAuth.file_host_scan_c acc l) <= 2 * nlen l + 1)
  /\ (forall ctx l port any,
     fst (C04_CostAuth.parse_port_loop_c ctx l port any) = parse_port_loop ctx l port any
     /\ snd (C04_CostAuth.parse_port_loop_c ctx l port any) <= nlen l + 1)
  /\ (forall hp hpo hd hpc hpoc ctx st l,
     nlen (C04_CostAuth.host_text st l) <= nlen l
     /\ C04_CostAuth.parse_host_and_port_cost hp hpo hd hpc hpoc ctx st l
        <= 3 * nlen l + 49 + hpc (C04_CostAuth.host_text st l) + hpoc (C04_CostAuth.host_text st l)
           + match parse_host hp hpo st l with POk (host, _) => nlen (hd host) | _ => 0 end)
  /\ (forall hp hpo hd hpc hpoc ctx st l a b d e,
     (forall t, hpc t <= a * nlen t + b) -> (forall t, hpoc t <= a * nlen t + b) ->
     (forall t h, hp t = Ok h \/ hpo t = Ok h -> nlen (hd h) <= d * nlen t + e) -> nlen (hd (HDomain [])) <= e ->
     C04_CostAuth.parse_host_and_port_cost hp hpo hd hpc hpoc ctx st l <= (3 + 2 * a + d) * nlen l + (49 + 2 * b + e)).
Print Assumptions C04_cost_authority.

(* MIME type parsing (Proofs/C04_CostMime.v): for a &str that parses, the cost is at most
   (14 + P) * (|input| + 1) + 4 where P is the number of parameters of the RESULT - linear whenever the number of
   accepted parameters is bounded.  The product term is real: finding F-C04-9 - with n pairwise distinct parameter
   names the cost is at least n (n - 1) / 2 (contains() scans the parameters collected so far), shown by computation
   for n = 50, 100, 200 together with the linear behaviour of the same-name family. *)
Theorem C04_cost_mime :
  (forall s m, usv_list s -> Mime.parse s = Mime.Ok (Some m) ->
     C04_CostMime.mime_parse_cost s <= (14 + C04_CostMime.plen (Mime.m_params m)) * (nlen s + 1) + 4)
  /\ ((C04_CostMime.n_params (C04_CostMime.mime_distinct 50) = 50
       /\ 50 * 49 <= 2 * C04_CostMime.mime_parse_cost (C04_CostMime.mime_distinct 50))
      /\ (C04_CostMime.n_params (C04_CostMime.mime_distinct 100) = 100
          /\ 100 * 99 <= 2 * C04_CostMime.mime_parse_cost (C04_CostMime.mime_distinct 100))
      /\ (C04_CostMime.n_params (C04_CostMime.mime_distinct 200) = 200
          /\ 200 * 199 <= 2 * C04_CostMime.mime_parse_cost (C04_CostMime.mime_distinct 200)))
  /\ ((C04_CostMime.n_params (C04_CostMime.mime_same 50) = 1
       /\ C04_CostMime.mime_parse_cost (C04_CostMime.mime_same 50) <= 15 * (nlen (C04_CostMime.mime_same 50) + 1) + 4)
      /\ (C04_CostMime.n_params (C04_CostMime.mime_same 100) = 1
          /\ C04_CostMime.mime_parse_cost (C04_CostMime.mime_same 100) <= 15 * (nlen (C04_CostMime.mime_same 100) + 1) + 4)
      /\ (C04_CostMime.n_params (C04_CostMime.mime_same 200) = 1
          /\ C04_CostMime.mime_parse_cost (C04_CostMime.mime_same 200) <= 15 * (nlen (C04_CostMime.mime_same 200) + 1) + 4)).
Proof.
  exact (conj C04_CostMime.mime_parse_cost_le
        (conj C04_CostMime.f_c04_9_quadratic_50_100_200 C04_CostMime.same_name_linear_50_100_200)).
Qed.
Check C04_cost_mime :
  (forall s m, usv_list s -> Mime.parse s = Mime.Ok (Some m) ->
     C04_CostMime.mime_parse_cost s <= (14 + C04_CostMime.plen (Mime.m_params m)) * (nlen s + 1) + 4)
  /\ ((C04_CostMime.n_params (C04_CostMime.mime_distinct 50) = 50
       /\ 50 * 49 <= 2 * C04_CostMime.mime_parse_cost (C04_CostMime.mime_distinct 50))
      /\ (C04_CostMime.n_params (C04_CostMime.mime_distinct 100) = 100
          /\ 100 * 99 <= 2 * C04_CostMime.mime_parse_cost (C04_CostMime.mime_distinct 100))
      /\ (C04_CostMime.n_params (C04_CostMime.mime_distinct 200) = 200
          /\ 200 * 199 <= 2 * C04_CostMime.mime_parse_cost (C04_CostMime.mime_distinct 200)))
  /\ ((C04_CostMime.n_params (C04_CostMime.mime_same 50) = 1
       /\ C04_CostMime.mime_parse_cost (C04_CostMime.mime_same 50) <= 15 * (nlen (C04_CostMime.mime_same 50) + 1) + 4)
      /\ (C04_CostMime.n_params (C04_CostMime.mime_same 100) = 1
          /\ C04_CostMime.mime_parse_cost (C04_CostMime.mime_same 100) <= 15 * (nlen (C04_CostMime.mime_same 100) + 1) + 4)
      /\ (C04_CostMime.n_params (C04_CostMime.mime_same 200) = 1
          /\ C04_CostMime.mime_parse_cost (C04_CostMime.mime_same 200) <= 15 * (nlen (C04_CostMime.mime_same 200) + 1) + 4)).
Print Assumptions C04_cost_mime.

(* the two OUTPUT WALKS of Uts46::process (Proofs/C04_CostIdna.v).  wsize = what a walk hands to the sink (one step per
   write call plus the code points written; a label written as Unicode is one write_char per element).  For ANY labels,
   already_punycode list, start state and policy: the writes of a walk are bounded by the prefix of the input, flushed at
   most once (fl_cost), plus, per label, twice the label, twice its mixed-case source slice, the encoder output and a
   constant (wbound) - no term is multiplied by the number of labels.  The Punycode encoder itself (quadratic) has no
   cost twin; what is proved about it is the cap (third part): every label of the domain_buffer that the marking run
   leaves is ASCII (never encoded), marked with U+FFFD (never encoded) or at most 1000 scalar values long - for every
   byte input, deny list, hyphen mode and every adapter returning scalar values; a walk encodes a label at most once. *)
Theorem C04_cost_uts46_walks : forall cfg,
  (forall ff oau dn tld bidi he labels aps seen pte flushed huo,
     C04_CostIdna.wsize (fst (Uts46.walk1 cfg ff oau dn tld bidi he labels aps seen pte flushed huo))
     <= C04_CostIdna.fl_cost dn flushed + C04_CostIdna.wbound cfg labels aps)
  /\ (forall dn he labels aps seen pte flushed,
     C04_CostIdna.wsize (fst (Uts46.walk2 cfg dn he labels aps seen pte flushed))
     <= C04_CostIdna.fl_cost dn flushed + C04_CostIdna.wbound cfg labels aps)
  /\ (forall A hy deny d, Idna_WalkEnc.AdapterUSV A ->
      match Uts46.process_inner A cfg false hy deny d with
      | Uts46.IRes _ _ _ db _ => Forall Idna_WalkEnc.capped (Uts46.split_on Uts46.DOT db)
      | Uts46.IPanic _ => True
      end).
Proof.
  intros cfg. split; [exact (C04_CostIdna.walk1_wsize cfg)|]. split; [exact (C04_CostIdna.walk2_wsize cfg)|].
  intros A hy deny d HU. exact (C04_CostIdna.labels_capped A cfg HU hy deny d).
Qed.
Check C04_cost_uts46_walks : forall cfg,
  (forall ff oau dn tld bidi he labels aps seen pte flushed huo,
     C04_CostIdna.wsize (fst (Uts46.walk1 cfg ff oau dn tld bidi he labels aps seen pte flushed huo))
     <= C04_CostIdna.fl_cost dn flushed + C04_CostIdna.wbound cfg labels aps)
  /\ (forall dn he labels aps seen pte flushed,
     C04_CostIdna.wsize (fst (Uts46.walk2 cfg dn he labels aps seen pte flushed))
     <= C04_CostIdna.fl_cost dn flushed + C04_CostIdna.wbound cfg labels aps)
  /\ (forall A hy deny d, Idna_WalkEnc.AdapterUSV A ->
      match Uts46.process_inner A cfg false hy deny d with
      | Uts46.IRes _ _ _ db _ => Forall Idna_WalkEnc.capped (Uts46.split_on Uts46.DOT db)
      | Uts46.IPanic _ => True
      end).
Print Assumptions C04_cost_uts46_walks.

From RU Require Proofs.C04_CostPathUp Proofs.C04_CostPathDD Proofs.C02_AuthMain Proofs.C03_ReachHost.

(* THE PATH STATE, UPPER BOUND (Proofs/C04_CostPathUp.v, C04_CostPathDD.v) - every scheme type, context and input.
   dd_count = the number of times finish_segment sees a double-dot segment in the run; run_bound = |serialization| +
   12 |pending| + 13 |input| bounds every serialization of the run.
   (1) steps <= 18 |input| + 12 |pending| + 5 + (file: 2 M + 3) + dd_count * (2 M + 3), M = run_bound: the ONLY
       super-linear part of parse_path is the resolution of double-dot segments (finding F-C04-8 shows it is real);
   (2) hence linear when the run resolves no double-dot segment;
   (3) and never more than quadratic (dd_count <= |input| + 1) - with C04_8_dotdots_cost the order n * L is exact;
   (4) a computable sufficient condition for (2): a non-file scheme type and an input without '.' and '%' (dotfree),
       started at a segment boundary as parse_path does: then dd_count = 0 and parse_path costs <= 18 |input| + 5;
   (5) PathSegmentsMut::extend outside finding F-C04-6: for a non-file scheme type and dotfree segments the whole call
       costs at most 20 per character (18 for parse_path, 2 for the skip test of extend) + 7 per segment + 1 (file: URLs are quadratic: C04_6_refuted). *)
Theorem C04_cost_path_upper : forall dbg,
  (forall ctx st ps l ser ss pend hh, usv_list l -> usv_list pend ->
     snd (parse_path_loop_c dbg ctx st ps l ser ss pend hh)
     <= 18 * nlen l + 12 * nlen pend + 5 + C04_CostPathUp.fix_bound st (C04_CostPathUp.run_bound ser pend l)
        + C04_CostPathUp.dd_count dbg ctx st ps l ser ss pend hh * (2 * C04_CostPathUp.run_bound ser pend l + 3))
  /\ (forall ctx st ps l ser ss pend hh, usv_list l -> usv_list pend ->
     C04_CostPathUp.dd_count dbg ctx st ps l ser ss pend hh = 0 ->
     snd (parse_path_loop_c dbg ctx st ps l ser ss pend hh) <= 44 * (nlen ser + nlen pend + nlen l) + 8)
  /\ (forall ctx st ps l ser ss pend hh, usv_list l -> usv_list pend ->
     snd (parse_path_loop_c dbg ctx st ps l ser ss pend hh)
     <= 18 * nlen l + 12 * nlen pend + 5 + (nlen l + 2) * (2 * C04_CostPathUp.run_bound ser pend l + 3))
  /\ (forall ctx st hh ps ser l, st_is_file st = false -> usv_list l -> C04_CostPathDD.dotfree l ->
     C04_CostPathUp.dd_count dbg ctx st ps l ser (nlen ser) [] hh = 0
     /\ snd (parse_path_c dbg ctx st hh ps ser l) <= 18 * nlen l + 5)
  /\ (forall st ps segs s, st_is_file st = false -> Forall usv_list segs -> Forall C04_CostPathDD.dotfree segs ->
     snd (psm_extend_loop_c dbg st ps s segs)
     <= 20 * C04_CostPathDD.total_len segs + 7 * nlen (map nlen segs) + 1).
Proof.
  intros dbg. split; [exact (C04_CostPathUp.path_cost_upper dbg)|]. split; [exact (C04_CostPathUp.path_cost_linear_no_dd dbg)|].
  split; [exact (C04_CostPathUp.path_cost_quadratic dbg)|]. split.
  - intros ctx st hh ps ser l Hf Hl Hd. split.
    + exact (C04_CostPathDD.dd_count_dotfree dbg ctx st ps l Hf ser (nlen ser) [] hh Hl Hd (Forall_nil _) (Forall_nil _)
               (C04_CostPathDD.seg_units_end ser)).
    + exact (C04_CostPathDD.parse_path_linear_dotfree_nofile dbg ctx st hh ps ser l Hf Hl Hd).
  - intros st ps segs s Hf Hu Hd. exact (C04_CostPathDD.extend_linear_dotfree dbg st ps segs Hf Hu Hd s).
Qed.
Check C04_cost_path_upper : forall dbg,
  (forall ctx st ps l ser ss pend hh, usv_list l -> usv_list pend ->
     snd (parse_path_loop_c dbg ctx st ps l ser ss pend hh)
     <= 18 * nlen l + 12 * nlen pend + 5 + C04_CostPathUp.fix_bound st (C04_CostPathUp.run_bound ser pend l)
        + C04_CostPathUp.dd_count dbg ctx st ps l ser ss pend hh * (2 * C04_CostPathUp.run_bound ser pend l + 3))
  /\ (forall ctx st ps l ser ss pend hh, usv_list l -> usv_list pend ->
     C04_CostPathUp.dd_count dbg ctx st ps l ser ss pend hh = 0 ->
     snd (parse_path_loop_c dbg ctx st ps l ser ss pend hh) <= 44 * (nlen ser + nlen pend + nlen l) + 8)
  /\ (forall ctx st ps l ser ss pend hh, usv_list l -> usv_list pend ->
     snd (parse_path_loop_c dbg ctx st ps l ser ss pend hh)
     <= 18 * nlen l + 12 * nlen pend + 5 + (nlen l + 2) * (2 * C04_CostPathUp.run_bound ser pend l + 3))
  /\ (forall ctx st hh ps ser l, st_is_file st = false -> usv_list l -> C04_CostPathDD.dotfree l ->
     C04_CostPathUp.dd_count dbg ctx st ps l ser (nlen ser) [] hh = 0
     /\ snd (parse_path_c dbg ctx st hh ps ser l) <= 18 * nlen l + 5)
  /\ (forall st ps segs s, st_is_file st = false -> Forall usv_list segs -> Forall C04_CostPathDD.dotfree segs ->
     snd (psm_extend_loop_c dbg st ps s segs)
     <= 20 * C04_CostPathDD.total_len segs + 7 * nlen (map nlen segs) + 1).
Print Assumptions C04_cost_path_upper.

From RU Require Proofs.C04_CostPuny.

(* the Punycode ENCODER (Proofs/C04_CostPuny.v): one pass for the basic code points, then per iteration of
   `while processed < input_length` one pass for the minimum and one pass of the inner loop; digits are counted by the
   length of the output.  (1) every input, both callers: steps <= n + (n + 1)(2n + 2) + 1 + |output| - the quadratic
   upper bound for the PUBLIC encoder (finding F-C04-10: no cap there); (2) under the cap of the internal caller
   (n <= 1000: what the uts46 walks can hand to it, C04_cost_uts46_walks part 3): steps <= 2005 (n + 1) + |output|, a
   constant per character; (3) F-C04-10 in the cost model by computation: n pairwise distinct CJK characters cost at
   least 2 n^2 (n = 50, 100, 200), 200 copies of one character at most 1020.  The decoder has no cost twin. *)
Theorem C04_cost_punycode :
  (forall cfg ext input,
     C04_CostPuny.encode_cost cfg ext input
     <= C04_CostPuny.plen input + (C04_CostPuny.plen input + 1) * (2 * C04_CostPuny.plen input + 2) + 1
        + C04_CostPuny.out_len (Punycode.encode_into cfg ext input))
  /\ (forall cfg ext input, C04_CostPuny.plen input <= 1000 ->
     C04_CostPuny.encode_cost cfg ext input
     <= 2005 * (C04_CostPuny.plen input + 1) + C04_CostPuny.out_len (Punycode.encode_into cfg ext input))
  /\ (2 * 50 * 50 <= C04_CostPuny.encode_cost false true (C04_CostPuny.distinct_cjk 50)
      /\ 2 * 100 * 100 <= C04_CostPuny.encode_cost false true (C04_CostPuny.distinct_cjk 100)
      /\ 2 * 200 * 200 <= C04_CostPuny.encode_cost false true (C04_CostPuny.distinct_cjk 200)
      /\ C04_CostPuny.encode_cost false true (map (fun _ => 19968) (C04_CostPuny.distinct_cjk 200)) <= 5 * 200 + 20).
Proof.
  exact (conj C04_CostPuny.encode_cost_le (conj C04_CostPuny.encode_cost_capped C04_CostPuny.f_c04_10_quadratic_50_100_200)).
Qed.
Check C04_cost_punycode :
  (forall cfg ext input,
     C04_CostPuny.encode_cost cfg ext input
     <= C04_CostPuny.plen input + (C04_CostPuny.plen input + 1) * (2 * C04_CostPuny.plen input + 2) + 1
        + C04_CostPuny.out_len (Punycode.encode_into cfg ext input))
  /\ (forall cfg ext input, C04_CostPuny.plen input <= 1000 ->
     C04_CostPuny.encode_cost cfg ext input
     <= 2005 * (C04_CostPuny.plen input + 1) + C04_CostPuny.out_len (Punycode.encode_into cfg ext input))
  /\ (2 * 50 * 50 <= C04_CostPuny.encode_cost false true (C04_CostPuny.distinct_cjk 50)
      /\ 2 * 100 * 100 <= C04_CostPuny.encode_cost false true (C04_CostPuny.distinct_cjk 100)
      /\ 2 * 200 * 200 <= C04_CostPuny.encode_cost false true (C04_CostPuny.distinct_cjk 200)
      /\ C04_CostPuny.encode_cost false true (map (fun _ => 19968) (C04_CostPuny.distinct_cjk 200)) <= 5 * 200 + 20).
Print Assumptions C04_cost_punycode.

(* ================================================================== the overall linear-time statement *)
(* "runs no longer than a constant times its input length", IN THE COST MODEL, with the exact known classes.  Every cost
   twin of the development (Model/Cost.v, Proofs/C04_Cost*.v) has a linear bound, except inside:
     F-C04-8  (path state: double-dot segments resolved behind a long prefix)  - linear iff no double-dot finish, part 6;
     F-C04-6  (PathSegmentsMut::extend on file: URLs)                          - linear for non-file schemes, part 6;
     F-C04-9  (MIME parameters with pairwise distinct names)                   - linear for a bounded number, part 7;
   and relative to parameters where the model has parameters (host functions; the Punycode encoder inside the uts46
   walks, capped at 1000 scalar values: part 8).
   NOT expressible here, because the function has no cost twin (the harness doubling experiment only):
     F-C04-10 (the public punycode functions: the encoder is quadratic and uncapped - upper bound and witnesses in
               C04_cost_punycode, linear under the cap: part 9 -, the decoder has no cost twin),
     F-C04-11 (Url::origin on nested blob: URLs: recursion depth = number of "blob:" levels, bounded only by the number
               of ':' in the serialization - C16_parse_colons - and on the machine stack in the Rust),
     the label pipeline process_inner of uts46 (linear passes plus the capped Punycode decoder, relative to the
     normalizer of the adapter), the data: header pre-parser, the setters other than extend, make_relative, file paths. *)
Definition C04_linear_statement : Prop :=
  (* 1 percent_encoding *)
  (forall S bs, snd (decode_c bs) <= 3 * nlen bs /\ snd (pe_chunks_c S bs) <= 5 * nlen bs + 1)
  (* 2 form_urlencoded *)
  /\ (forall bs, snd (bser_chunks_c bs) <= 5 * nlen bs + 1
                 /\ snd (parse_next_c bs) <= 5 * (nlen bs - nlen (C04_Cost.pnext_rest (FormUrlencoded.parse_next bs))) + 2)
  (* 3 base64 *)
  /\ (forall (W E : Type) (write : W -> list N -> W * option E) d input, snd (feed_c write d input) <= nlen input)
  (* 4 fragment, query, opaque path *)
  /\ (forall set enc iup ctx ser l, C04_Cost.enc_ok enc -> usv_list l ->
        snd (parse_fragment_loop_c ser [] l) <= 13 * nlen l + 1
        /\ snd (parse_query_loop_c set enc iup ser [] l) <= 13 * nlen l + 1
        /\ snd (parse_cannot_be_a_base_path_c ctx ser l) <= 13 * nlen l + 1)
  (* 5 userinfo; host and port relative to linear host functions *)
  /\ (forall st ser l, usv_list l -> C04_CostAuth.parse_userinfo_cost st ser l <= 14 * nlen l + 4)
  /\ (forall hp hpo hd hpc hpoc ctx st l a b d e,
        (forall t, hpc t <= a * nlen t + b) -> (forall t, hpoc t <= a * nlen t + b) ->
        (forall t h, hp t = Ok h \/ hpo t = Ok h -> nlen (hd h) <= d * nlen t + e) -> nlen (hd (HDomain [])) <= e ->
        C04_CostAuth.parse_host_and_port_cost hp hpo hd hpc hpoc ctx st l <= (3 + 2 * a + d) * nlen l + (49 + 2 * b + e))
  (* 6 path state outside F-C04-8, extend outside F-C04-6 *)
  /\ (forall dbg ctx st ps l ser ss pend hh, usv_list l -> usv_list pend ->
        C04_CostPathUp.dd_count dbg ctx st ps l ser ss pend hh = 0 ->
        snd (parse_path_loop_c dbg ctx st ps l ser ss pend hh) <= 44 * (nlen ser + nlen pend + nlen l) + 8)
  /\ (forall dbg st ps segs s, st_is_file st = false -> Forall usv_list segs -> Forall C04_CostPathDD.dotfree segs ->
        snd (psm_extend_loop_c dbg st ps s segs) <= 20 * C04_CostPathDD.total_len segs + 7 * nlen (map nlen segs) + 1)
  (* 7 MIME outside F-C04-9 *)
  /\ (forall s m, usv_list s -> Mime.parse s = Mime.Ok (Some m) ->
        C04_CostMime.mime_parse_cost s <= (14 + C04_CostMime.plen (Mime.m_params m)) * (nlen s + 1) + 4)
  (* 8 uts46 output walks; the encoder is capped *)
  /\ (forall cfg ff oau dn tld bidi he labels aps seen pte flushed huo,
        C04_CostIdna.wsize (fst (Uts46.walk1 cfg ff oau dn tld bidi he labels aps seen pte flushed huo))
        <= C04_CostIdna.fl_cost dn flushed + C04_CostIdna.wbound cfg labels aps)
  /\ (forall cfg dn he labels aps seen pte flushed,
        C04_CostIdna.wsize (fst (Uts46.walk2 cfg dn he labels aps seen pte flushed))
        <= C04_CostIdna.fl_cost dn flushed + C04_CostIdna.wbound cfg labels aps)
  /\ (forall A cfg hy deny d, Idna_WalkEnc.AdapterUSV A ->
        match Uts46.process_inner A cfg false hy deny d with
        | Uts46.IRes _ _ _ db _ => Forall Idna_WalkEnc.capped (Uts46.split_on Uts46.DOT db)
        | Uts46.IPanic _ => True
        end)
  (* 9 the Punycode encoder under the cap of its internal caller (1000 scalar values): a constant per character *)
  /\ (forall cfg ext input, C04_CostPuny.plen input <= 1000 ->
        C04_CostPuny.encode_cost cfg ext input
        <= 2005 * (C04_CostPuny.plen input + 1) + C04_CostPuny.out_len (Punycode.encode_into cfg ext input))
  (* the known classes are inhabited: no linear bound for the path state (F-C04-8) *)
  /\ (forall a b : N, exists pre l dbg hh, usv_list l /\
        a * (nlen (pre ++ [47]) + nlen l) + b
        < snd (parse_path_loop_c dbg CUrlParser STNotSpecial (nlen pre) l (pre ++ [47]) (nlen (pre ++ [47])) [] hh)).

Theorem C04_linear : C04_linear_statement.
Proof.
  split; [intros S bs; exact (conj (C04_Cost.decode_c_linear bs) (C04_Cost.pe_chunks_c_linear S bs))|].
  split; [intros bs; exact (conj (C04_Cost.bser_chunks_c_linear bs) (C04_Cost.parse_next_c_linear bs))|].
  split; [intros W E write d input; exact (proj2 (C04_Cost.feed_c_spec write input d))|].
  split; [intros set enc iup ctx ser l He Hl;
          exact (conj (proj2 (C04_Cost.parse_fragment_c_linear ser l Hl))
                (conj (proj2 (C04_Cost.parse_query_c_linear set enc iup ser l He Hl)) (proj2 (C04_Cost.parse_cbb_c_linear ctx ser l Hl))))|].
  split; [exact C04_CostAuth.parse_userinfo_linear|]. split; [exact C04_CostAuth.parse_host_and_port_linear|].
  split; [exact C04_CostPathUp.path_cost_linear_no_dd|].
  split; [intros dbg st ps segs s Hf Hu Hd; exact (C04_CostPathDD.extend_linear_dotfree dbg st ps segs Hf Hu Hd s)|].
  split; [exact C04_CostMime.mime_parse_cost_le|].
  split; [exact C04_CostIdna.walk1_wsize|]. split; [exact C04_CostIdna.walk2_wsize|].
  split; [intros A cfg hy deny d HU; exact (C04_CostIdna.labels_capped A cfg HU hy deny d)|].
  split; [exact C04_CostPuny.encode_cost_capped|].
  exact C04_CostPath.path_cost_not_linear.
Qed.
Check C04_linear : C04_linear_statement.
Print Assumptions C04_linear.

(* non-vacuity of the new theorems: a concrete host-function instance meets HostWf and a parse / join chain exists (PJ);
   the table has a row for Url::origin carrying the exact claim; a run with three ".." has dd_count 3, one without has 0;
   the cost twins of the userinfo / host / port states on "u:p@h:80/" *)
Example C04_fin_premises_hold :
  C03_ReachParts.HostWf C02_AuthMain.ex_hp C02_AuthMain.ex_hp C02_AuthMain.ex_hd
  /\ (exists u, C05_CompSteps3.PJ true C02_AuthMain.ex_hp C02_AuthMain.ex_hp C02_AuthMain.ex_hd u /\ ser u = [104;116;116;112;58;47;47;104;47;120])
  /\ C04_CostPathUp.dd_count true CUrlParser STNotSpecial 2 (C04_CostPath.dotdots 3) [97; 58; 47] 3 [] false = 3
  /\ C04_CostPathUp.dd_count true CUrlParser STNotSpecial 2 [98; 47; 99; 63; 113] [97; 58; 47] 3 [] false = 0
  /\ C04_CostPathDD.dotfree [98; 47; 99; 63; 113]
  /\ C04_CostAuth.parse_userinfo_cost STNotSpecial [97; 58; 47; 47] [117; 58; 112; 64; 104; 58; 56; 48; 47] = 18
  /\ snd (C04_CostAuth.host_scan_c false false [] [104; 58; 56; 48; 47]) = 3
  /\ C04_Origin.tuple_no_host_b C04_ParseTotal.cbb_special_base = true.
Proof.
  split; [exact C03_ReachHost.ex_host_wf|]. split.
  - eexists. split.
    + eapply C05_CompSteps3.PJ_join with (ovr := None) (input := [120]);
        [eapply C05_CompSteps3.PJ_parse with (ovr := None) (input := [104;116;116;112;58;47;47;104;47;97]); vm_compute; reflexivity
        | vm_compute; reflexivity].
    + reflexivity.
  - split; [vm_compute; reflexivity|]. split; [vm_compute; reflexivity|].
    split; [unfold C04_CostPathDD.dotfree; repeat constructor; discriminate|].
    split; [vm_compute; reflexivity|]. split; [vm_compute; reflexivity|]. vm_compute. reflexivity.
Qed.

(* finding F-C04-9 for all n (kept as a Definition; instances n = 50, 100, 200 are in C04_cost_mime) *)
Definition C04_9_quadratic_statement : Prop :=
  forall n, N.of_nat n * (N.of_nat n - 1) <= 2 * C04_CostMime.mime_parse_cost (C04_CostMime.mime_distinct n).

(* F-C06-7, found by C04 as C04_push_tab_dotdot_witness, is FIXED (rust-url commit 9cd6187): extend() now makes its skip
   test on the tab / LF / CR-free text of the segment - the text the path state will see - so push(".<TAB>.") is skipped
   like push("..") and http://h/a/b is left alone in both configurations (before the repair the Input iterator dropped
   the TAB, the path state saw a double dot and POPPED the segment b: http://h/a/).  The test scans the segment at most
   twice (6 steps here), which is the 2 per character of C04_cost_path_upper (5); parse_path on that text would still
   count one double dot (last clause) - the segment no longer reaches it. *)
Theorem C04_push_tab_dotdot_fixed :
  Setters.path_segments_session true C04_CostPathDD.w_tab_url [Setters.PPush [46; 9; 46]] = Some (C04_CostPathDD.w_tab_url, Setters.SOk)
  /\ Setters.path_segments_session false C04_CostPathDD.w_tab_url [Setters.PPush [46; 9; 46]] = Some (C04_CostPathDD.w_tab_url, Setters.SOk)
  /\ Setters.path_segments_session true C04_CostPathDD.w_tab_url [Setters.PPush [46; 46]] = Some (C04_CostPathDD.w_tab_url, Setters.SOk)
  /\ psm_skips_c [46; 9; 46] = (true, 6)
  /\ C04_CostPathUp.dd_count true CPathSegmentSetter STSpecialNotFile 8 [46; 9; 46] [104;116;116;112;58;47;47;104;47;97;47;98;47] 13 [] true = 1.
Proof. exact C04_CostPathDD.push_tab_dotdot_fixed. Qed.
Check C04_push_tab_dotdot_fixed :
  Setters.path_segments_session true C04_CostPathDD.w_tab_url [Setters.PPush [46; 9; 46]] = Some (C04_CostPathDD.w_tab_url, Setters.SOk)
  /\ Setters.path_segments_session false C04_CostPathDD.w_tab_url [Setters.PPush [46; 9; 46]] = Some (C04_CostPathDD.w_tab_url, Setters.SOk)
  /\ Setters.path_segments_session true C04_CostPathDD.w_tab_url [Setters.PPush [46; 46]] = Some (C04_CostPathDD.w_tab_url, Setters.SOk)
  /\ psm_skips_c [46; 9; 46] = (true, 6)
  /\ C04_CostPathUp.dd_count true CPathSegmentSetter STSpecialNotFile 8 [46; 9; 46] [104;116;116;112;58;47;47;104;47;97;47;98;47] 13 [] true = 1.
Print Assumptions C04_push_tab_dotdot_fixed.

(* C04_reached_premises for the LARGEST reachability relation of the development: CReach3 (Proofs/C05_CompSteps3.v) =
   parse, join and all 19 mutators - the Url setters, path_segments_mut sessions, query_pairs_mut sessions and the
   quirks setters - each step outside the known classes (step_gate3: the frame hypotheses behind F-C02-2 / -4 / -8,
   F-C03-5, F-C06-5, stated on the pair of records).  Every such record satisfies wf_b and wfh, hence is a legal
   receiver of C04_no_panic_accessors / _setters / _setters2 / _quirks and of the rows of C04_no_panic_inventory that
   have these premises.  Hypotheses on the host functions: HostWf and IpDisp (Display writes an address as a non-empty
   text that does not start with ':' / '@'); C09 proves both of the host model. *)
Theorem C04_reached_premises_all : forall hp hpo hd, C03_ReachParts.HostWf hp hpo hd -> C05_CompSteps3.IpDisp hd ->
  forall dbg u, C05_CompSteps3.CReach3 dbg hp hpo hd u -> wf_b u = true /\ C06_Main.wfh u.
Proof. exact C04_Chain.creach3_wf. Qed.
Check C04_reached_premises_all : forall hp hpo hd, C03_ReachParts.HostWf hp hpo hd -> C05_CompSteps3.IpDisp hd ->
  forall dbg u, C05_CompSteps3.CReach3 dbg hp hpo hd u -> wf_b u = true /\ C06_Main.wfh u.
Print Assumptions C04_reached_premises_all.

From RU Require Proofs.C05_FinEx.
(* the hypotheses of C04_reached_premises_all have an instance, and a history through a quirks host setter exists in it *)
Example C04_reached_all_inhabited : C05_FinEx.fin_example_stmt.
Proof. exact C05_FinEx.fin_example. Qed.

(* ================================================================== task c04fin2 *)
From RU Require Proofs.C04_Quad Proofs.C04_CheckInv Proofs.C04_Reach3 Proofs.C04_Reach3Ex Proofs.C02_Reach Proofs.C02_Reach3
  Proofs.C02_SetHostCanon Proofs.C03_AuthEnd Proofs.C05_Parser Proofs.C05_Alphabet Proofs.C03_ReachFullEx.

(* finding F-C04-6 as a lower bound for EVERY n (induction: the k-th push("a") on file:/// runs the file fix-up of
   parse_path on a path of 2k + 2 bytes): C04_6_quadratic_statement in full *)
Theorem C04_6_quadratic : C04_6_quadratic_statement.
Proof. exact C04_Quad.f_c04_6_all_n. Qed.
Check C04_6_quadratic : forall n, N.of_nat n * N.of_nat n <= C04_CostPath.pushes_cost STFile 7 C04_CostPath.s_file_root n.
Print Assumptions C04_6_quadratic.

(* finding F-C04-9 as a lower bound by induction.  The family mime_distinct of C04_9_quadratic_statement writes its counter
   with at most 10 decimal digits (digits_rev with fuel 10): beyond n = 10^10 the names repeat and are rejected by
   contains(), so C04_9_quadratic_statement as written (ALL n) is not what the finding says and stays a Definition
   (no witness against it is computable).  Proved: (1) the statement for every n <= 10^10, with the input length
   <= 14 n + 3 (so cost >= |input|^2 / 400 or so on that range); (2) for EVERY n on the family mime_distinct_u whose
   counter has as many digits as needed (n digits of fuel; the two families agree, e.g. at n = 12). *)
Theorem C04_9_quadratic_partial :
  (forall n, N.of_nat n <= 10000000000 ->
     N.of_nat n * (N.of_nat n - 1) <= 2 * C04_CostMime.mime_parse_cost (C04_CostMime.mime_distinct n))
  /\ (forall n, nlen (C04_CostMime.mime_distinct n) <= 14 * N.of_nat n + 3)
  /\ (forall n, N.of_nat n * (N.of_nat n - 1) <= 2 * C04_CostMime.mime_parse_cost (C04_Quad.mime_distinct_u n))
  /\ C04_Quad.mime_distinct_u 12 = C04_CostMime.mime_distinct 12.
Proof.
  exact (conj C04_Quad.f_c04_9_upto (conj C04_Quad.mime_distinct_len (conj C04_Quad.f_c04_9_all_n C04_Quad.mime_distinct_u_12))).
Qed.
Check C04_9_quadratic_partial :
  (forall n, N.of_nat n <= 10000000000 ->
     N.of_nat n * (N.of_nat n - 1) <= 2 * C04_CostMime.mime_parse_cost (C04_CostMime.mime_distinct n))
  /\ (forall n, nlen (C04_CostMime.mime_distinct n) <= 14 * N.of_nat n + 3)
  /\ (forall n, N.of_nat n * (N.of_nat n - 1) <= 2 * C04_CostMime.mime_parse_cost (C04_Quad.mime_distinct_u n))
  /\ C04_Quad.mime_distinct_u 12 = C04_CostMime.mime_distinct 12.
Print Assumptions C04_9_quadratic_partial.

(* Url::check_invariants (lib.rs:686-808), the self-check of the anchors.  Proofs/C04_CheckInv.v is a hand transcription
   into a three-valued function (COk = Ok(()), CErr = Err(String): its assert! / assert_eq! are local Err-returning macros,
   CPanic: byte_at out of range, str slice out of range, port_str.parse::<u16>().expect, Url::parse(..).expect); the outcome
   of Url::parse(self.as_str()) is an argument.  On a record with wf_b and host_text_ok EVERY structural check (lines
   713-789) passes - wf_b is that part of check_invariants - except the comparison of the text of an IP host with its
   Display text (ip_text_ok, not recorded by wf_b: it gives Err, no panic).  So check_invariants panics EXACTLY when the
   structural part passes and the re-parse fails; it returns Ok(()) on a fixpoint of re-parsing with ip_text_ok; outside
   wf_b the structural part itself panics (empty serialization). *)
Theorem C04_check_invariants :
  (forall hd u other, wf_b u = true -> C06_Suffix.host_text_ok u -> (forall o, other = POk o -> wf_b o = true) ->
     (C04_CheckInv.check_invariants hd u other = C04_CheckInv.CPanic
      <-> (has_authority_b u && negb (C04_CheckInv.ip_text_ok hd u) = false /\ forall o, other <> POk o)))
  /\ (forall hd u, wf_b u = true -> C06_Suffix.host_text_ok u -> C04_CheckInv.ip_text_ok hd u = true ->
        C04_CheckInv.check_invariants hd u (POk u) = C04_CheckInv.COk)
  /\ (forall hd, C04_CheckInv.check_invariants hd (mkUrl [] 1 1 1 1 HI_None None 1 None None) (PErr EmptyHost)
                 = C04_CheckInv.CPanic).
Proof.
  exact (conj C04_CheckInv.check_invariants_panic_iff
        (conj C04_CheckInv.check_invariants_ok C04_CheckInv.check_invariants_panics_outside_wf)).
Qed.
Check C04_check_invariants :
  (forall hd u other, wf_b u = true -> C06_Suffix.host_text_ok u -> (forall o, other = POk o -> wf_b o = true) ->
     (C04_CheckInv.check_invariants hd u other = C04_CheckInv.CPanic
      <-> (has_authority_b u && negb (C04_CheckInv.ip_text_ok hd u) = false /\ forall o, other <> POk o)))
  /\ (forall hd u, wf_b u = true -> C06_Suffix.host_text_ok u -> C04_CheckInv.ip_text_ok hd u = true ->
        C04_CheckInv.check_invariants hd u (POk u) = C04_CheckInv.COk)
  /\ (forall hd, C04_CheckInv.check_invariants hd (mkUrl [] 1 1 1 1 HI_None None 1 None None) (PErr EmptyHost)
                 = C04_CheckInv.CPanic).
Print Assumptions C04_check_invariants.

(* the mutator theorems over C02's quantifier Reachable3 (parse and join of &str texts against any reached record, every
   call of the 19 mutators outside C02's known_step2, query_pairs_mut sessions): the hand premises wf_b / wfh of
   C04_no_panic_setters / _setters2 / _quirks are discharged by C03_reachability_full (hypotheses on the host functions as
   there; C03_reachability_full_model discharges them for the host model under IdnaOK).  The accessors and Position
   slicing of a reached record are C03_accessors_reachable.  NEW with respect to the wf_b theorems: Url::origin NEVER
   panics on a reached record (the class tuple_no_host_b of C04_origin_panic_iff is not reached: invariant HE), and
   Url::check_invariants panics exactly when its structural part passes and the re-parse fails - a reached record that is
   a fixpoint of re-parsing (C02: every record of ReachC4, C02_reach_partial4) with ip_text_ok gives Ok(()).  The two exact
   classes of the mutators (PathSegmentsMut::new's assertion, F-C04-1) stay as iff: psm_assert_fails is not excluded by
   inv03.  dbg = configuration of the history, dbg' = configuration of the call. *)
Theorem C04_no_panic_reachable3 : forall hp hpo hd, C03_ReachParts.HostWf hp hpo hd -> C02_SetHostCanon.host_nonempty hp hpo ->
  C03_AuthEnd.IpWf hd -> C05_Parser.HostOK hp hpo hd -> C05_Alphabet.IpOKv hd ->
  forall dbg u, C02_Reach3.Reachable3 dbg hp hpo hd u ->
  (wf_b u = true /\ C06_Main.wfh u /\ C04_Origin.tuple_no_host_b u = false)
  /\ forall dbg',
  ((forall f, exists u', Setters.set_fragment dbg' u f = Some u')
   /\ (forall q, C06_Main.str_arg_ok q -> exists u', Setters.set_query dbg' u q = Some u')
   /\ (forall p, C06_Main.port_arg_ok p -> exists r, Setters.set_port dbg' u p = Some r)
   /\ (forall pw, exists r, Setters.set_password dbg' u pw = Some r)
   /\ (forall un, exists r, Setters.set_username dbg' u un = Some r)
   /\ (forall s, exists r, Setters.set_scheme dbg' u s = Some r))
  /\ ((forall p, exists u', Setters.set_path dbg' u p = Some u')
      /\ (forall ops, Setters.path_segments_session dbg' u ops = None <-> dbg' = true /\ C04_SetPath.psm_assert_fails u = true)
      /\ (forall h, Setters.set_host dbg' hp hpo hd u h = None <-> dbg' = true /\ h = None /\ C04_SetHost.known_c04_1 u = true)
      /\ (forall h, exists r, Setters.set_ip_host dbg' hd u h = Some r)
      /\ (forall h op, exists u', Setters.set_host_internal dbg' hd u h op = Some u'))
  /\ ((forall v, exists r, Setters.q_set_protocol dbg' u v = Some r)
      /\ (forall v, exists r, Setters.q_set_username dbg' u v = Some r)
      /\ (forall v, exists r, Setters.q_set_password dbg' u v = Some r)
      /\ (forall v, exists r, Setters.q_set_host dbg' hp hpo hd u v = Some r)
      /\ (forall v, exists r, Setters.q_set_hostname dbg' hp hpo hd u v = Some r)
      /\ (forall v, exists r, Setters.q_set_port dbg' u v = Some r)
      /\ (forall v, exists u', Setters.q_set_pathname dbg' u v = Some u')
      /\ (forall v, usv_list v -> exists u', Setters.q_set_search dbg' u v = Some u')
      /\ (forall v, exists u', Setters.q_set_hash dbg' u v = Some u'))
  /\ (forall c, Origin.url_origin dbg' hp hpo hd c u <> Origin.OPanic /\ Origin.url_origin dbg' hp hpo hd c u <> Origin.OFuel)
  /\ (C04_CheckInv.check_invariants hd u (C02_Reach.reparse dbg' hp hpo hd u) = C04_CheckInv.CPanic
      <-> (has_authority_b u && negb (C04_CheckInv.ip_text_ok hd u) = false
           /\ forall o, C02_Reach.reparse dbg' hp hpo hd u <> POk o))
  /\ (C02_Reach.Fixpoint_of_reparse dbg' hp hpo hd u -> C04_CheckInv.ip_text_ok hd u = true ->
      C04_CheckInv.check_invariants hd u (C02_Reach.reparse dbg' hp hpo hd u) = C04_CheckInv.COk).
Proof.
  intros hp hpo hd H1 H2 H3 H4 H5 dbg u R.
  exact (conj (C04_Reach3.reach3_premises hp hpo hd H1 H2 H3 H4 H5 dbg u R)
              (C04_Reach3.reach3_no_panic hp hpo hd H1 H2 H3 H4 H5 dbg u R)).
Qed.
Check C04_no_panic_reachable3 : forall hp hpo hd, C03_ReachParts.HostWf hp hpo hd -> C02_SetHostCanon.host_nonempty hp hpo ->
  C03_AuthEnd.IpWf hd -> C05_Parser.HostOK hp hpo hd -> C05_Alphabet.IpOKv hd ->
  forall dbg u, C02_Reach3.Reachable3 dbg hp hpo hd u ->
  (wf_b u = true /\ C06_Main.wfh u /\ C04_Origin.tuple_no_host_b u = false)
  /\ forall dbg',
  ((forall f, exists u', Setters.set_fragment dbg' u f = Some u')
   /\ (forall q, C06_Main.str_arg_ok q -> exists u', Setters.set_query dbg' u q = Some u')
   /\ (forall p, C06_Main.port_arg_ok p -> exists r, Setters.set_port dbg' u p = Some r)
   /\ (forall pw, exists r, Setters.set_password dbg' u pw = Some r)
   /\ (forall un, exists r, Setters.set_username dbg' u un = Some r)
   /\ (forall s, exists r, Setters.set_scheme dbg' u s = Some r))
  /\ ((forall p, exists u', Setters.set_path dbg' u p = Some u')
      /\ (forall ops, Setters.path_segments_session dbg' u ops = None <-> dbg' = true /\ C04_SetPath.psm_assert_fails u = true)
      /\ (forall h, Setters.set_host dbg' hp hpo hd u h = None <-> dbg' = true /\ h = None /\ C04_SetHost.known_c04_1 u = true)
      /\ (forall h, exists r, Setters.set_ip_host dbg' hd u h = Some r)
      /\ (forall h op, exists u', Setters.set_host_internal dbg' hd u h op = Some u'))
  /\ ((forall v, exists r, Setters.q_set_protocol dbg' u v = Some r)
      /\ (forall v, exists r, Setters.q_set_username dbg' u v = Some r)
      /\ (forall v, exists r, Setters.q_set_password dbg' u v = Some r)
      /\ (forall v, exists r, Setters.q_set_host dbg' hp hpo hd u v = Some r)
      /\ (forall v, exists r, Setters.q_set_hostname dbg' hp hpo hd u v = Some r)
      /\ (forall v, exists r, Setters.q_set_port dbg' u v = Some r)
      /\ (forall v, exists u', Setters.q_set_pathname dbg' u v = Some u')
      /\ (forall v, usv_list v -> exists u', Setters.q_set_search dbg' u v = Some u')
      /\ (forall v, exists u', Setters.q_set_hash dbg' u v = Some u'))
  /\ (forall c, Origin.url_origin dbg' hp hpo hd c u <> Origin.OPanic /\ Origin.url_origin dbg' hp hpo hd c u <> Origin.OFuel)
  /\ (C04_CheckInv.check_invariants hd u (C02_Reach.reparse dbg' hp hpo hd u) = C04_CheckInv.CPanic
      <-> (has_authority_b u && negb (C04_CheckInv.ip_text_ok hd u) = false
           /\ forall o, C02_Reach.reparse dbg' hp hpo hd u <> POk o))
  /\ (C02_Reach.Fixpoint_of_reparse dbg' hp hpo hd u -> C04_CheckInv.ip_text_ok hd u = true ->
      C04_CheckInv.check_invariants hd u (C02_Reach.reparse dbg' hp hpo hd u) = C04_CheckInv.COk).
Print Assumptions C04_no_panic_reachable3.

(* non-vacuity: host functions meeting the five hypotheses (C03_ReachFullEx.ex3_full_hyps); "http://u:p@h:81/a?q#f" is reached
   by Url::parse, "http://u:p@h:81/x%20y?q#f" by set_path("/x y") on it; check_invariants computes to Ok(()) on both *)
Example C04_reachable3_inhabited :
  (C03_ReachParts.HostWf C03_ReachKnown.ex_hp3 C02_AuthMain.ex_hp C03_ReachEx.ex_hd2
   /\ C02_SetHostCanon.host_nonempty C03_ReachKnown.ex_hp3 C02_AuthMain.ex_hp /\ C03_AuthEnd.IpWf C03_ReachEx.ex_hd2
   /\ C05_Parser.HostOK C03_ReachKnown.ex_hp3 C02_AuthMain.ex_hp C03_ReachEx.ex_hd2 /\ C05_Alphabet.IpOKv C03_ReachEx.ex_hd2)
  /\ C04_Reach3Ex.reach3_ci_example_stmt.
Proof. exact (conj C03_ReachFullEx.ex3_full_hyps C04_Reach3Ex.reach3_ci_example). Qed.

(* the Punycode DECODER's main loop (Proofs/C04_CostPunyDec.v): the cost twin computes Punycode.dec_loop; L code units with m
   insertions already collected cost at most L (1 + m + L) + 1 steps (one per code unit, plus one per collected insertion
   at every decoded delta - the decode side of finding F-C04-10 for the public, uncapped functions); under the cap of
   2000 code units that uts46 applies before decoding: at most 2001 steps per code unit.  Not counted: the final
   sort_by_key (O(m log m) in Rust) and the Decode iterator (one step per output character). *)
From RU Require Proofs.C04_CostPunyDec.
Theorem C04_cost_punycode_decoder :
  (forall dbg it input mid p w k i len cp bias ins,
     fst (C04_CostPunyDec.dec_loop_c dbg it input mid p w k i len cp bias ins)
     = Punycode.dec_loop dbg it input mid p w k i len cp bias ins)
  /\ (forall dbg it input mid p w k i len cp bias ins,
        snd (C04_CostPunyDec.dec_loop_c dbg it input mid p w k i len cp bias ins)
        <= N.of_nat (length input) * (1 + N.of_nat (length ins) + N.of_nat (length input)) + 1)
  /\ (forall dbg it input len0, (length input <= 2000)%nat ->
        snd (C04_CostPunyDec.dec_loop_c dbg it input false 0 1 Punycode.BASE 0 len0 Punycode.INITIAL_N Punycode.INITIAL_BIAS [])
        <= 2001 * N.of_nat (length input) + 1).
Proof.
  exact (conj C04_CostPunyDec.dec_loop_c_fst (conj C04_CostPunyDec.dec_loop_c_le C04_CostPunyDec.dec_loop_c_capped)).
Qed.
Check C04_cost_punycode_decoder :
  (forall dbg it input mid p w k i len cp bias ins,
     fst (C04_CostPunyDec.dec_loop_c dbg it input mid p w k i len cp bias ins)
     = Punycode.dec_loop dbg it input mid p w k i len cp bias ins)
  /\ (forall dbg it input mid p w k i len cp bias ins,
        snd (C04_CostPunyDec.dec_loop_c dbg it input mid p w k i len cp bias ins)
        <= N.of_nat (length input) * (1 + N.of_nat (length ins) + N.of_nat (length input)) + 1)
  /\ (forall dbg it input len0, (length input <= 2000)%nat ->
        snd (C04_CostPunyDec.dec_loop_c dbg it input false 0 1 Punycode.BASE 0 len0 Punycode.INITIAL_N Punycode.INITIAL_BIAS [])
        <= 2001 * N.of_nat (length input) + 1).
Print Assumptions C04_cost_punycode_decoder.

(* ================================================================== task c04c03inv *)
From RU Require Proofs.C04_CheckReach Proofs.C02_Hist Proofs.C02_HistInst Proofs.C02_Reach4 Proofs.C02_Reach5 Proofs.C03_ReachFinEx Proofs.C09_Host.

(* Url::check_invariants WITHOUT the premise ip_text_ok (Proofs/C04_CheckReach.v).  ip_text_ok hd u is the boolean form of
   C03's host text invariant KT (C03_host_text_parse: every record parse_url returns; C03_views_reachable: every Reachable3
   record).  (1) a fixpoint of re-parsing IS a parse result, so under HostWf alone check_invariants returns Ok(()) on every
   fixpoint; (2) every record of C02's ReachC4 (C02_reach_partial4: fixpoint of re-parsing; hypotheses of C02) satisfies
   ip_text_ok and check_invariants returns Ok(()) in both configurations of the history; (3) on a Reachable3 record
   (hypotheses of C04_no_panic_reachable3) ip_text_ok holds, so check_invariants panics EXACTLY when the re-parse of the
   serialization fails (C02's known classes) and returns Ok(()) on every fixpoint. *)
Theorem C04_check_invariants_reach :
  (forall dbg hp hpo hd u, C03_ReachParts.HostWf hp hpo hd -> C02_Reach.Fixpoint_of_reparse dbg hp hpo hd u ->
     C04_CheckInv.check_invariants hd u (C02_Reach.reparse dbg hp hpo hd u) = C04_CheckInv.COk)
  /\ (forall dbg hp hpo hd, C02_Hist.HostOK2 hp hpo hd -> C02_SetHostCanon.host_nonempty hp hpo ->
      forall u, C02_Reach5.ReachC4 dbg hp hpo hd u ->
      C04_CheckInv.ip_text_ok hd u = true
      /\ C04_CheckInv.check_invariants hd u (C02_Reach.reparse dbg hp hpo hd u) = C04_CheckInv.COk)
  /\ (forall hp hpo hd, C03_ReachParts.HostWf hp hpo hd -> C02_SetHostCanon.host_nonempty hp hpo ->
      C03_AuthEnd.IpWf hd -> C05_Parser.HostOK hp hpo hd -> C05_Alphabet.IpOKv hd ->
      forall dbg u, C02_Reach3.Reachable3 dbg hp hpo hd u ->
      C04_CheckInv.ip_text_ok hd u = true
      /\ forall dbg',
         (C04_CheckInv.check_invariants hd u (C02_Reach.reparse dbg' hp hpo hd u) = C04_CheckInv.CPanic
          <-> forall o, C02_Reach.reparse dbg' hp hpo hd u <> POk o)
         /\ (C02_Reach.Fixpoint_of_reparse dbg' hp hpo hd u ->
             C04_CheckInv.check_invariants hd u (C02_Reach.reparse dbg' hp hpo hd u) = C04_CheckInv.COk)).
Proof.
  split; [intros dbg hp hpo hd u HW F; exact (C04_CheckReach.check_invariants_fix hp hpo hd dbg u HW F)|].
  split; [intros dbg hp hpo hd H1 H2 u R; exact (C04_CheckReach.check_invariants_reach hp hpo hd dbg H1 H2 u R)|].
  intros hp hpo hd H1 H2 H3 H4 H5 dbg u R.
  exact (conj (C04_CheckReach.reach3_ip_text_ok hp hpo hd H1 H2 H3 H4 H5 dbg u R)
              (C04_CheckReach.check_invariants_reach3 hp hpo hd H1 H2 H3 H4 H5 dbg u R)).
Qed.
Check C04_check_invariants_reach :
  (forall dbg hp hpo hd u, C03_ReachParts.HostWf hp hpo hd -> C02_Reach.Fixpoint_of_reparse dbg hp hpo hd u ->
     C04_CheckInv.check_invariants hd u (C02_Reach.reparse dbg hp hpo hd u) = C04_CheckInv.COk)
  /\ (forall dbg hp hpo hd, C02_Hist.HostOK2 hp hpo hd -> C02_SetHostCanon.host_nonempty hp hpo ->
      forall u, C02_Reach5.ReachC4 dbg hp hpo hd u ->
      C04_CheckInv.ip_text_ok hd u = true
      /\ C04_CheckInv.check_invariants hd u (C02_Reach.reparse dbg hp hpo hd u) = C04_CheckInv.COk)
  /\ (forall hp hpo hd, C03_ReachParts.HostWf hp hpo hd -> C02_SetHostCanon.host_nonempty hp hpo ->
      C03_AuthEnd.IpWf hd -> C05_Parser.HostOK hp hpo hd -> C05_Alphabet.IpOKv hd ->
      forall dbg u, C02_Reach3.Reachable3 dbg hp hpo hd u ->
      C04_CheckInv.ip_text_ok hd u = true
      /\ forall dbg',
         (C04_CheckInv.check_invariants hd u (C02_Reach.reparse dbg' hp hpo hd u) = C04_CheckInv.CPanic
          <-> forall o, C02_Reach.reparse dbg' hp hpo hd u <> POk o)
         /\ (C02_Reach.Fixpoint_of_reparse dbg' hp hpo hd u ->
             C04_CheckInv.check_invariants hd u (C02_Reach.reparse dbg' hp hpo hd u) = C04_CheckInv.COk)).
Print Assumptions C04_check_invariants_reach.

(* with the host MODEL: the only premise is IdnaOK idna *)
Theorem C04_check_invariants_reach_model : forall dbg idna, C09_Host.IdnaOK idna ->
  forall u, C02_Reach5.ReachC4 dbg (Host.host_parse idna) Host.host_parse_opaque Host.host_display u ->
  C04_CheckInv.check_invariants Host.host_display u
    (C02_Reach.reparse dbg (Host.host_parse idna) Host.host_parse_opaque Host.host_display u) = C04_CheckInv.COk.
Proof.
  intros dbg idna OK u R.
  exact (proj2 (C04_CheckReach.check_invariants_reach _ _ _ dbg (C02_HistInst.HostOK2_model idna OK)
                  (C02_Reach4.host_nonempty_model idna) u R)).
Qed.
Check C04_check_invariants_reach_model : forall dbg idna, C09_Host.IdnaOK idna ->
  forall u, C02_Reach5.ReachC4 dbg (Host.host_parse idna) Host.host_parse_opaque Host.host_display u ->
  C04_CheckInv.check_invariants Host.host_display u
    (C02_Reach.reparse dbg (Host.host_parse idna) Host.host_parse_opaque Host.host_display u) = C04_CheckInv.COk.
Print Assumptions C04_check_invariants_reach_model.

(* non-vacuity: the hypotheses hold for the host model with the oracle idna_clean, and ReachC4 contains a record with an
   IPv6 host: "http://[::1]:81/p?k=v" (C03_round_trips_reach_inhabited) *)
Example C04_check_invariants_reach_inhabited :
  (C02_Hist.HostOK2 C03_ReachFinEx.mhp0 Host.host_parse_opaque Host.host_display
   /\ C02_SetHostCanon.host_nonempty C03_ReachFinEx.mhp0 Host.host_parse_opaque)
  /\ C03_ReachFinEx.reachc4_example_stmt.
Proof. exact (conj C03_ReachFinEx.reachfin_hyps C03_ReachFinEx.reachc4_example). Qed.

From RU Require Proofs.C03_InvSP Proofs.C03_InvSPReach Proofs.C04_Reach3b.

(* C04_no_panic_reachable3 with its two remaining conditional clauses closed.  (a) path_segments_mut sessions: the class
   psm_assert_fails (PathSegmentsMut::new's debug assertion: special scheme and the byte at path_start is not '/') is NOT
   reached - SP u := special scheme -> the byte at path_start is '/' is an invariant of Parser::parse_url (every arm, file
   states included: C03_special_path_parse) and of every step of the 19 mutators outside excl03 (C03_special_path_step),
   hence of Reachable3 - so sessions NEVER panic on a reached record, in either configuration.  (b) check_invariants:
   ip_text_ok is a consequence of C03's invariant KT (C04_check_invariants_reach), so it panics exactly when the re-parse
   fails and returns Ok(()) on every fixpoint of re-parsing.  What stays an iff: set_host(None) (finding F-C04-1,
   known_c04_1: a record whose path is empty behind an authority, e.g. "a://h?q" - reached by parsing). *)
Theorem C04_no_panic_reachable3b : forall hp hpo hd, C03_ReachParts.HostWf hp hpo hd -> C02_SetHostCanon.host_nonempty hp hpo ->
  C03_AuthEnd.IpWf hd -> C05_Parser.HostOK hp hpo hd -> C05_Alphabet.IpOKv hd ->
  forall dbg u, C02_Reach3.Reachable3 dbg hp hpo hd u ->
  (wf_b u = true /\ C06_Main.wfh u /\ C04_Origin.tuple_no_host_b u = false
   /\ C03_InvSP.SP u /\ C04_SetPath.psm_assert_fails u = false /\ C04_CheckInv.ip_text_ok hd u = true)
  /\ forall dbg',
  ((forall f, exists u', Setters.set_fragment dbg' u f = Some u')
   /\ (forall q, C06_Main.str_arg_ok q -> exists u', Setters.set_query dbg' u q = Some u')
   /\ (forall p, C06_Main.port_arg_ok p -> exists r, Setters.set_port dbg' u p = Some r)
   /\ (forall pw, exists r, Setters.set_password dbg' u pw = Some r)
   /\ (forall un, exists r, Setters.set_username dbg' u un = Some r)
   /\ (forall s, exists r, Setters.set_scheme dbg' u s = Some r))
  /\ ((forall p, exists u', Setters.set_path dbg' u p = Some u')
      /\ (forall ops, exists r, Setters.path_segments_session dbg' u ops = Some r)
      /\ (forall h, Setters.set_host dbg' hp hpo hd u h = None <-> dbg' = true /\ h = None /\ C04_SetHost.known_c04_1 u = true)
      /\ (forall h, exists r, Setters.set_ip_host dbg' hd u h = Some r)
      /\ (forall h op, exists u', Setters.set_host_internal dbg' hd u h op = Some u'))
  /\ ((forall v, exists r, Setters.q_set_protocol dbg' u v = Some r)
      /\ (forall v, exists r, Setters.q_set_username dbg' u v = Some r)
      /\ (forall v, exists r, Setters.q_set_password dbg' u v = Some r)
      /\ (forall v, exists r, Setters.q_set_host dbg' hp hpo hd u v = Some r)
      /\ (forall v, exists r, Setters.q_set_hostname dbg' hp hpo hd u v = Some r)
      /\ (forall v, exists r, Setters.q_set_port dbg' u v = Some r)
      /\ (forall v, exists u', Setters.q_set_pathname dbg' u v = Some u')
      /\ (forall v, usv_list v -> exists u', Setters.q_set_search dbg' u v = Some u')
      /\ (forall v, exists u', Setters.q_set_hash dbg' u v = Some u'))
  /\ (forall c, Origin.url_origin dbg' hp hpo hd c u <> Origin.OPanic /\ Origin.url_origin dbg' hp hpo hd c u <> Origin.OFuel)
  /\ (C04_CheckInv.check_invariants hd u (C02_Reach.reparse dbg' hp hpo hd u) = C04_CheckInv.CPanic
      <-> forall o, C02_Reach.reparse dbg' hp hpo hd u <> POk o)
  /\ (C02_Reach.Fixpoint_of_reparse dbg' hp hpo hd u ->
      C04_CheckInv.check_invariants hd u (C02_Reach.reparse dbg' hp hpo hd u) = C04_CheckInv.COk).
Proof.
  intros hp hpo hd H1 H2 H3 H4 H5 dbg u R.
  destruct (C04_Reach3.reach3_premises hp hpo hd H1 H2 H3 H4 H5 dbg u R) as (P1 & P2 & P3).
  destruct (C03_InvSPReach.reach3_psm_assert dbg hp hpo hd H1 H2 H3 H4 H5 u R) as [S F].
  pose proof (C04_CheckReach.reach3_ip_text_ok hp hpo hd H1 H2 H3 H4 H5 dbg u R) as I3.
  split; [exact (conj P1 (conj P2 (conj P3 (conj S (conj F I3)))))|].
  intros dbg'.
  destruct (C04_Reach3.reach3_no_panic hp hpo hd H1 H2 H3 H4 H5 dbg u R dbg') as (A & (B1 & _ & B3 & B4 & B5) & C & D & _ & _).
  destruct (C04_CheckReach.check_invariants_reach3 hp hpo hd H1 H2 H3 H4 H5 dbg u R dbg') as [E1 E2].
  split; [exact A|]. split.
  - split; [exact B1|]. split; [|exact (conj B3 (conj B4 B5))].
    intros ops. exact (proj2 (C04_Reach3b.reach3_sessions_total hp hpo hd H1 H2 H3 H4 H5 dbg u R) dbg' ops).
  - exact (conj C (conj D (conj E1 E2))).
Qed.
Check C04_no_panic_reachable3b : forall hp hpo hd, C03_ReachParts.HostWf hp hpo hd -> C02_SetHostCanon.host_nonempty hp hpo ->
  C03_AuthEnd.IpWf hd -> C05_Parser.HostOK hp hpo hd -> C05_Alphabet.IpOKv hd ->
  forall dbg u, C02_Reach3.Reachable3 dbg hp hpo hd u ->
  (wf_b u = true /\ C06_Main.wfh u /\ C04_Origin.tuple_no_host_b u = false
   /\ C03_InvSP.SP u /\ C04_SetPath.psm_assert_fails u = false /\ C04_CheckInv.ip_text_ok hd u = true)
  /\ forall dbg',
  ((forall f, exists u', Setters.set_fragment dbg' u f = Some u')
   /\ (forall q, C06_Main.str_arg_ok q -> exists u', Setters.set_query dbg' u q = Some u')
   /\ (forall p, C06_Main.port_arg_ok p -> exists r, Setters.set_port dbg' u p = Some r)
   /\ (forall pw, exists r, Setters.set_password dbg' u pw = Some r)
   /\ (forall un, exists r, Setters.set_username dbg' u un = Some r)
   /\ (forall s, exists r, Setters.set_scheme dbg' u s = Some r))
  /\ ((forall p, exists u', Setters.set_path dbg' u p = Some u')
      /\ (forall ops, exists r, Setters.path_segments_session dbg' u ops = Some r)
      /\ (forall h, Setters.set_host dbg' hp hpo hd u h = None <-> dbg' = true /\ h = None /\ C04_SetHost.known_c04_1 u = true)
      /\ (forall h, exists r, Setters.set_ip_host dbg' hd u h = Some r)
      /\ (forall h op, exists u', Setters.set_host_internal dbg' hd u h op = Some u'))
  /\ ((forall v, exists r, Setters.q_set_protocol dbg' u v = Some r)
      /\ (forall v, exists r, Setters.q_set_username dbg' u v = Some r)
      /\ (forall v, exists r, Setters.q_set_password dbg' u v = Some r)
      /\ (forall v, exists r, Setters.q_set_host dbg' hp hpo hd u v = Some r)
      /\ (forall v, exists r, Setters.q_set_hostname dbg' hp hpo hd u v = Some r)
      /\ (forall v, exists r, Setters.q_set_port dbg' u v = Some r)
      /\ (forall v, exists u', Setters.q_set_pathname dbg' u v = Some u')
      /\ (forall v, usv_list v -> exists u', Setters.q_set_search dbg' u v = Some u')
      /\ (forall v, exists u', Setters.q_set_hash dbg' u v = Some u'))
  /\ (forall c, Origin.url_origin dbg' hp hpo hd c u <> Origin.OPanic /\ Origin.url_origin dbg' hp hpo hd c u <> Origin.OFuel)
  /\ (C04_CheckInv.check_invariants hd u (C02_Reach.reparse dbg' hp hpo hd u) = C04_CheckInv.CPanic
      <-> forall o, C02_Reach.reparse dbg' hp hpo hd u <> POk o)
  /\ (C02_Reach.Fixpoint_of_reparse dbg' hp hpo hd u ->
      C04_CheckInv.check_invariants hd u (C02_Reach.reparse dbg' hp hpo hd u) = C04_CheckInv.COk).
Print Assumptions C04_no_panic_reachable3b.

(* non-vacuity: the hypotheses and a history are those of C04_reachable3_inhabited ("http://u:p@h:81/a?q#f" reached by
   Url::parse, a special URL: SP says its byte at path_start is '/'); the excluded class itself is inhabited among wf_b
   records (C04_psm_witness: "http://h" with an empty path) - it is the history that excludes it, not well-formedness *)
Example C04_reachable3b_inhabited :
  (C03_ReachParts.HostWf C03_ReachKnown.ex_hp3 C02_AuthMain.ex_hp C03_ReachEx.ex_hd2
   /\ C02_SetHostCanon.host_nonempty C03_ReachKnown.ex_hp3 C02_AuthMain.ex_hp /\ C03_AuthEnd.IpWf C03_ReachEx.ex_hd2
   /\ C05_Parser.HostOK C03_ReachKnown.ex_hp3 C02_AuthMain.ex_hp C03_ReachEx.ex_hd2 /\ C05_Alphabet.IpOKv C03_ReachEx.ex_hd2)
  /\ C04_Reach3Ex.reach3_ci_example_stmt
  /\ (wf_b C04_SetPath.psm_w = true /\ C04_SetPath.psm_assert_fails C04_SetPath.psm_w = true).
Proof.
  split; [exact C03_ReachFullEx.ex3_full_hyps|]. split; [exact C04_Reach3Ex.reach3_ci_example|].
  destruct C04_SetPath.psm_witness as (A & B & _). exact (conj A B).
Qed.

(* ================================================================== task c04cost *)
From RU Require Proofs.C04_Table2.

(* THE INVENTORY TABLE WITH REAL CLAIMS ON ROWS THAT CARRIED THE TRIVIAL ONE (Proofs/C04_Table2.v).
   C04_no_panic_inventory left 54 of the 167 rows with the claim True (KByType / KDocumented / KHarness).  C04_Table2.table2
   is computed from C04_Table.table and the list C04_Table2.overrides: 21 of the KByType rows - every one whose function
   has a Gallina model about which something can be stated - now carry a claim on that model (kind KRange), proved from
   the existing totality / cost / UTF-8 theorems:
     parser::to_u32 (no panic; Ok exactly below 2^32, ParseError::Overflow above), parser::default_port (a u16),
     Input::new_no_trim / new_trim_tab_and_newlines / new_trim_c0_control_and_space / is_empty / split_prefix (what they
     return is a &str again: scalar values), Parser::parse_scheme (scheme a-z 0-9 + - ., the remaining input a suffix and a
     &str), Parser::file_host (slices in range, 2 steps per character, no panic outcome of its two callers for any host
     parser), Parser::parse_query / parse_fragment / parse_cannot_be_a_base_path (cost twins, 13n+1),
     percent_decode / percent_decode_str / PercentDecode::decode_utf8 / decode_utf8_lossy (3 steps per byte, output not
     longer than the input, the String of the lossy view is scalar values, the reused Vec is valid UTF-8),
     AsciiSet::union / complement (the words stay u32 values; membership is the set operation),
     Serializer::new (position 0 is in range and a character boundary: ANY session of well-formed operations on ANY target
     ends in Ok - neither the documented for_suffix panic nor F-C15-1 can occur),
     FragmentIdentifier::to_percent_encoded (ASCII), Mime::get_parameter (exactly the parameter pairs of a parse result).
     (1) the key columns of table2 ARE the regenerated inventory T_C04_API;
     (2) every claim holds (the 37 old ones and the 11 new ones), hence the claim of every row;
     (3) every override names exactly one row of the old table, a KByType row with the trivial claim, and its new claim
         is not the trivial one;
     (4) the rows that are not overridden keep kind and pinned theorem;
     (5) exactly the rows of kind K KByType / K KDocumented / K KHarness carry the trivial claim;
     (6) census: 76 KTheorem, 20 KExact, 17 KOutside, 21 KRange, 27 KByType (constructors, field reads, matches on an enum:
         ParseOptions::base_url / encoding_override, Url::options / as_str / into_string / has_host / port, Host::to_owned,
         Origin::is_tuple / ascii_serialization, SyntaxViolation::description, SchemeType::is_special / is_file,
         Parser::for_setter, parser::ascii_alpha / is_windows_drive_letter, quirks::internal_components / href, Idna::new,
         the four Config builders, Uts46::new, Serializer::encoding_override, DataUrl::mime_type, Decoder::new),
         2 KDocumented, 4 KHarness: 33 rows with the trivial claim instead of 54. *)
Theorem C04_no_panic_inventory2 :
  map C04_Table2.row2_key C04_Table2.table2 = T_C04_API
  /\ ((forall q, C04_Table2.claim2 q)
      /\ Forall (fun r => C04_Table2.claim2 (C04_Table2.r2_claim r)) C04_Table2.table2)
  /\ C04_Table2.overrides_sound_b = true
  /\ C04_Table2.table2_keeps_b = true
  /\ C04_Table2.kinds2_consistent_b = true
  /\ (length C04_Table2.table2 = 167%nat /\ length C04_Table2.overrides = 21%nat
      /\ C04_Table2.count_kind2 (C04_Table2.K C04_Table.KTheorem) = 76%nat
      /\ C04_Table2.count_kind2 (C04_Table2.K C04_Table.KExact) = 20%nat
      /\ C04_Table2.count_kind2 (C04_Table2.K C04_Table.KOutside) = 17%nat
      /\ C04_Table2.count_kind2 C04_Table2.KRange = 21%nat
      /\ C04_Table2.count_kind2 (C04_Table2.K C04_Table.KByType) = 27%nat
      /\ C04_Table2.count_kind2 (C04_Table2.K C04_Table.KDocumented) = 2%nat
      /\ C04_Table2.count_kind2 (C04_Table2.K C04_Table.KHarness) = 4%nat).
Proof.
  exact (conj C04_Table2.table2_complete (conj (conj C04_Table2.claims2_hold C04_Table2.table2_sound)
        (conj C04_Table2.overrides_sound (conj C04_Table2.table2_keeps (conj C04_Table2.kinds2_consistent
        C04_Table2.table2_counts))))).
Qed.
Check C04_no_panic_inventory2 :
  map C04_Table2.row2_key C04_Table2.table2 = T_C04_API
  /\ ((forall q, C04_Table2.claim2 q)
      /\ Forall (fun r => C04_Table2.claim2 (C04_Table2.r2_claim r)) C04_Table2.table2)
  /\ C04_Table2.overrides_sound_b = true
  /\ C04_Table2.table2_keeps_b = true
  /\ C04_Table2.kinds2_consistent_b = true
  /\ (length C04_Table2.table2 = 167%nat /\ length C04_Table2.overrides = 21%nat
      /\ C04_Table2.count_kind2 (C04_Table2.K C04_Table.KTheorem) = 76%nat
      /\ C04_Table2.count_kind2 (C04_Table2.K C04_Table.KExact) = 20%nat
      /\ C04_Table2.count_kind2 (C04_Table2.K C04_Table.KOutside) = 17%nat
      /\ C04_Table2.count_kind2 C04_Table2.KRange = 21%nat
      /\ C04_Table2.count_kind2 (C04_Table2.K C04_Table.KByType) = 27%nat
      /\ C04_Table2.count_kind2 (C04_Table2.K C04_Table.KDocumented) = 2%nat
      /\ C04_Table2.count_kind2 (C04_Table2.K C04_Table.KHarness) = 4%nat).
Print Assumptions C04_no_panic_inventory2.

(* non-vacuity of the new claims: concrete values *)
Example C04_inventory2_instances :
  to_u32 4294967295 = POk 4294967295 /\ to_u32 4294967296 = PErr Overflow
  /\ default_port s_https = Some 443
  /\ aset_wf (aset_complement T_PATH_SEGMENT) /\ aset_wf (aset_union T_PATH_SEGMENT T_FRAGMENT)
  /\ DataUrl.to_percent_encoded [97; 9; 32; 233; 60] = [97; 37; 50; 48; 37; 69; 57; 37; 51; 67]
  /\ file_host [104; 9; 111; 47; 120] = ([104; 111], [47; 120])
  /\ parse_scheme CUrlParser [72; 116; 9; 84; 80; 58; 47] = Some ([104; 116; 116; 112], [47])
  /\ inp_split_prefix_str [47; 47] [9; 47; 10; 47; 120] = Some [120]
  /\ snd (FormUrlencoded.decode_utf8_lossy (pd_cow [37; 70; 70; 97])) = [65533; 97].
Proof. vm_compute. repeat split; try reflexivity; intros H; discriminate H. Qed.

(* FINDING F-C04-9 ON THE REPAIRED FAMILY, FOR EVERY n (Proofs/C04_Quad2.v).  C04_9_quadratic_statement speaks of the family
   mime_distinct, whose counter has 10 digits of fuel: above n = 10^10 its names repeat, so that statement is not what the
   finding says (superseded, kept as a Definition; proved up to 10^10 in C04_9_quadratic_partial).  mime_distinct2 is the
   family the finding describes - "a/b" followed by ";p0=1;p1=1;...;p<n-1>=1", every counter written with as many decimal
   digits as it needs - and C04_9_quadratic_statement2 is the statement for it. *)
From RU Require Proofs.C04_Quad2.
Definition C04_9_quadratic_statement2 : Prop :=
  forall n, N.of_nat n * (N.of_nat n - 1) <= 2 * C04_CostMime.mime_parse_cost (C04_Quad2.mime_distinct2 n).

Theorem C04_9_quadratic : C04_9_quadratic_statement2.
Proof. exact C04_Quad2.f_c04_9_all_n2. Qed.
Check C04_9_quadratic : forall n, N.of_nat n * (N.of_nat n - 1) <= 2 * C04_CostMime.mime_parse_cost (C04_Quad2.mime_distinct2 n).
Print Assumptions C04_9_quadratic.

(* the repaired family: it IS the old one up to 10^10 parameters, it is the member of every bounded-counter family with
   enough digits, it consists of &str values, and it is short - F + 5 bytes per parameter while n <= 10^(F+1), i.e.
   |input| = O(n log n) *)
Theorem C04_9_family :
  (forall n, N.of_nat n <= 10000000000 -> C04_Quad2.mime_distinct2 n = C04_CostMime.mime_distinct n)
  /\ (forall F n, N.of_nat n <= 10 ^ N.of_nat (S F) -> C04_Quad2.mime_distinct2 n = C04_Quad.mime_distinct_f (S F) n)
  /\ (forall n, usv_list (C04_Quad2.mime_distinct2 n))
  /\ (forall F n, N.of_nat n <= 10 ^ N.of_nat (S F) ->
        nlen (C04_Quad2.mime_distinct2 n) <= (N.of_nat (S F) + 4) * N.of_nat n + 3).
Proof.
  exact (conj C04_Quad2.mime_distinct2_old (conj C04_Quad2.mime_distinct2_family
        (conj C04_Quad2.mime_distinct2_usv C04_Quad2.mime_distinct2_len))).
Qed.
Check C04_9_family :
  (forall n, N.of_nat n <= 10000000000 -> C04_Quad2.mime_distinct2 n = C04_CostMime.mime_distinct n)
  /\ (forall F n, N.of_nat n <= 10 ^ N.of_nat (S F) -> C04_Quad2.mime_distinct2 n = C04_Quad.mime_distinct_f (S F) n)
  /\ (forall n, usv_list (C04_Quad2.mime_distinct2 n))
  /\ (forall F n, N.of_nat n <= 10 ^ N.of_nat (S F) ->
        nlen (C04_Quad2.mime_distinct2 n) <= (N.of_nat (S F) + 4) * N.of_nat n + 3).
Print Assumptions C04_9_family.

(* hence NO linear bound a * |input| + b holds for Mime::from_str in the cost model: for every a, b a &str of the family
   costs more (the counterpart of C04_8_refuted for the path state; the matching upper bound is C04_cost_mime:
   (14 + P)(n + 1) + 4 with P the number of parameters) *)
Theorem C04_9_refuted : forall a b : N, exists s, usv_list s /\ a * nlen s + b < C04_CostMime.mime_parse_cost s.
Proof. exact C04_Quad2.f_c04_9_no_linear. Qed.
Check C04_9_refuted : forall a b : N, exists s, usv_list s /\ a * nlen s + b < C04_CostMime.mime_parse_cost s.
Print Assumptions C04_9_refuted.

(* the family at n = 12: the text, that it parses to 12 parameters, and its cost *)
Example C04_9_family_instance :
  C04_Quad2.mime_distinct2 3 = [97; 47; 98; 59; 112; 48; 61; 49; 59; 112; 49; 61; 49; 59; 112; 50; 61; 49]
  /\ C04_CostMime.n_params (C04_Quad2.mime_distinct2 12) = 12
  /\ 12 * 11 <= 2 * C04_CostMime.mime_parse_cost (C04_Quad2.mime_distinct2 12).
Proof. vm_compute. repeat split; intros H; discriminate H. Qed.

(* COST OF THE HEADER PRE-PARSER OF DataUrl::process (Proofs/C04_CostData.v; cost semantics of Model/Cost.v: one step per
   element examined by a scan or loop, per String::push, slice or literal comparison; push_str of x = nlen x).  The step
   counts follow the data flow of the model functions of Model/DataUrl.v (pretend_parse_data_url,
   find_comma_before_fragment, parse_header, remove_base64_suffix) on the UTF-8 bytes of the argument:
     (1) everything except Mime::from_str costs at most 13 |input| + 31 steps, for EVERY byte input;
     (2) the String handed to Mime::from_str (header_text) has at most 3 |input| + 10 bytes and is a &str;
     (3) it IS the string the model parses: the MIME type of every DataUrl returned is its parse result or the fallback;
     (4) the whole: 13 |input| + 31 + (14 + P)(3 |input| + 11) + 4 when the header parses to a MIME type with P
         parameters - linear for a bounded number of parameters; the product term is finding F-C04-9 (C04_9_quadratic,
         C04_9_refuted) reaching DataUrl::process through its MIME header;
     (5) inputs that do not reach Mime::from_str (not a data: URL, no comma): 13 |input| + 31.
   The body decoders are C04_cost_base64 / C04_cost_percent_encoding. *)
From RU Require Proofs.C04_CostData.
Theorem C04_cost_data_url : forall input, bytes input ->
  C04_CostData.scan_cost input <= 13 * nlen input + 31
  /\ (forall hs, C04_CostData.header_text input = Some hs -> nlen hs <= 3 * nlen input + 10 /\ usv_list hs)
  /\ (forall d, DataUrl.process_bytes input = Mime.Ok (inl d) ->
        exists hs parsed, C04_CostData.header_text input = Some hs /\ Mime.from_str hs = Mime.Ok parsed
          /\ DataUrl.du_mime_type d = match parsed with Some m => m | None => DataUrl.fallback_mime end)
  /\ (forall hs m, C04_CostData.header_text input = Some hs -> Mime.parse hs = Mime.Ok (Some m) ->
        C04_CostData.process_cost input
        <= 13 * nlen input + 31 + (14 + C04_CostMime.plen (Mime.m_params m)) * (3 * nlen input + 11) + 4)
  /\ (C04_CostData.header_text input = None -> C04_CostData.process_cost input <= 13 * nlen input + 31).
Proof.
  intros input Hb. split; [exact (C04_CostData.scan_cost_linear input)|]. split.
  - intros hs H. exact (conj (C04_CostData.header_text_len input hs H) (C04_CostData.header_text_usv input hs Hb H)).
  - split; [exact (C04_CostData.header_text_model input)|]. split.
    + intros hs m H1 H2. exact (C04_CostData.process_cost_linear input hs m Hb H1 H2).
    + exact (C04_CostData.process_cost_no_header input).
Qed.
Check C04_cost_data_url : forall input, bytes input ->
  C04_CostData.scan_cost input <= 13 * nlen input + 31
  /\ (forall hs, C04_CostData.header_text input = Some hs -> nlen hs <= 3 * nlen input + 10 /\ usv_list hs)
  /\ (forall d, DataUrl.process_bytes input = Mime.Ok (inl d) ->
        exists hs parsed, C04_CostData.header_text input = Some hs /\ Mime.from_str hs = Mime.Ok parsed
          /\ DataUrl.du_mime_type d = match parsed with Some m => m | None => DataUrl.fallback_mime end)
  /\ (forall hs m, C04_CostData.header_text input = Some hs -> Mime.parse hs = Mime.Ok (Some m) ->
        C04_CostData.process_cost input
        <= 13 * nlen input + 31 + (14 + C04_CostMime.plen (Mime.m_params m)) * (3 * nlen input + 11) + 4)
  /\ (C04_CostData.header_text input = None -> C04_CostData.process_cost input <= 13 * nlen input + 31).
Print Assumptions C04_cost_data_url.

(* " dAta:;a=1; base64,eHg#f" : the header text is "text/plain;a=1" (prefix added, base64 suffix removed), it parses to
   one parameter, and the step count of the whole pre-parser is 163 on these 24 bytes (54 without Mime::from_str) *)
Example C04_cost_data_url_instance :
  let input := [32; 100; 65; 116; 97; 58; 59; 97; 61; 49; 59; 32; 98; 97; 115; 101; 54; 52; 44; 101; 72; 103; 35; 102] in
  C04_CostData.header_text input = Some [116; 101; 120; 116; 47; 112; 108; 97; 105; 110; 59; 97; 61; 49]
  /\ (exists m, Mime.parse [116; 101; 120; 116; 47; 112; 108; 97; 105; 110; 59; 97; 61; 49] = Mime.Ok (Some m)
                /\ C04_CostMime.plen (Mime.m_params m) = 1)
  /\ C04_CostData.scan_cost input = 54 /\ C04_CostData.process_cost input = 163.
Proof.
  cbv zeta. split; [vm_compute; reflexivity|]. split.
  - eexists. split; vm_compute; reflexivity.
  - split; vm_compute; reflexivity.
Qed.

(* COST OF Url::make_relative (Proofs/C04_CostRel.v; model Model/MakeRelative.v; cost semantics of Model/Cost.v: rfind is a
   reverse search, a split('/') iterator examines every byte of its text once, slice equality compares the lengths and
   then at most the common length, push_str of x = nlen x).  The step counts follow the data flow of the model:
     (1) the path part (two extract_path_filename, the two segment iterators, the skip loop over common segments, the
         ".." loop, the copy loop, the filename rule) costs at most 9 |base path| + 6 |url path| + 26;
     (2) the whole method (comparisons of cannot_be_a_base / scheme / host / port, the path part, the copies of query and
         fragment) at most 12 |base| + 8 |url| + 35 in the lengths of the two serializations - linear, no product term:
         every loop consumes its iterator;
     (3) whenever the method returns a relative reference the accessors the count is defined from returned as well. *)
From RU Require Proofs.C04_CostRel.
Theorem C04_cost_make_relative : forall dbg b t,
  (forall pb pt, C04_CostRel.mr_path_k pb pt <= 9 * nlen pb + 6 * nlen pt + 26)
  /\ C04_CostRel.make_relative_k dbg b t <= 12 * nlen (ser b) + 8 * nlen (ser t) + 35
  /\ (forall r, MakeRelative.make_relative dbg b t = Some (Some r) ->
        exists sb st pb pt q f, scheme b = Some sb /\ scheme t = Some st /\ path b = Some pb /\ path t = Some pt
          /\ query dbg t = Some q /\ fragment dbg t = Some f).
Proof.
  intros dbg b t. exact (conj C04_CostRel.mr_path_k_le (conj (C04_CostRel.make_relative_k_le dbg b t)
        (C04_CostRel.make_relative_k_defined dbg b t))).
Qed.
Check C04_cost_make_relative : forall dbg b t,
  (forall pb pt, C04_CostRel.mr_path_k pb pt <= 9 * nlen pb + 6 * nlen pt + 26)
  /\ C04_CostRel.make_relative_k dbg b t <= 12 * nlen (ser b) + 8 * nlen (ser t) + 35
  /\ (forall r, MakeRelative.make_relative dbg b t = Some (Some r) ->
        exists sb st pb pt q f, scheme b = Some sb /\ scheme t = Some st /\ path b = Some pb /\ path t = Some pt
          /\ query dbg t = Some q /\ fragment dbg t = Some f).
Print Assumptions C04_cost_make_relative.

(* http://h/a/b/c?x against http://h/a/d/e?q#f gives "../d/e?q#f" in 64 steps (48 for the path part) *)
Example C04_cost_make_relative_instance :
  exists b t, parse_url true toy_hp toy_hp toy_hd None None [104;116;116;112;58;47;47;104;47;97;47;98;47;99;63;120] = POk b
    /\ parse_url true toy_hp toy_hp toy_hd None None [104;116;116;112;58;47;47;104;47;97;47;100;47;101;63;113;35;102] = POk t
    /\ MakeRelative.make_relative true b t = Some (Some [46; 46; 47; 100; 47; 101; 63; 113; 35; 102])
    /\ C04_CostRel.make_relative_k true b t = 64
    /\ C04_CostRel.mr_path_k [47;97;47;98;47;99] [47;97;47;100;47;101] = 48.
Proof. eexists. eexists. split; [vm_compute; reflexivity|]. split; [vm_compute; reflexivity|]. vm_compute. repeat split. Qed.

(* COST OF THE FILE-PATH CONVERSIONS (Proofs/C04_CostFile.v; model Model/FilePath.v, cfg(unix); cost semantics of
   Model/Cost.v: Path::components() / split('/') examine every byte of their text once, the percent-encoder and the
   percent-decoder are the twins pe_chunks_c / decode_c - their counts include the bytes written -, push = 1).  The step
   counts follow the data flow of the model:
     (1) Url::from_file_path (path_to_file_url_segments; from_directory_path adds two steps): at most 6 |path| + 10;
     (2) Url::to_file_path (path_segments, the host test, file_url_segments_to_pathbuf): at most 5 |url| + 14 in the length
         of the serialization.
   Linear: every component / segment is encoded or decoded once. *)
From RU Require Proofs.C04_CostFile.
Theorem C04_cost_file_path :
  (forall p, C04_CostFile.from_file_path_k p <= 6 * nlen p + 10)
  /\ (forall u, C04_CostFile.to_file_path_k u <= 5 * nlen (ser u) + 14).
Proof. exact (conj C04_CostFile.from_file_path_k_le C04_CostFile.to_file_path_k_le). Qed.
Check C04_cost_file_path :
  (forall p, C04_CostFile.from_file_path_k p <= 6 * nlen p + 10)
  /\ (forall u, C04_CostFile.to_file_path_k u <= 5 * nlen (ser u) + 14).
Print Assumptions C04_cost_file_path.

(* "/a b/../c.txt" -> file:///a%20b/../c.txt in 49 steps, and back in 57 *)
Example C04_cost_file_path_instance :
  let p := [47; 97; 32; 98; 47; 46; 46; 47; 99; 46; 116; 120; 116] in
  C04_CostFile.from_file_path_k p = 49
  /\ exists u, FilePath.from_file_path p = FilePath.FOk u
       /\ ser u = [102; 105; 108; 101; 58; 47; 47; 47; 97; 37; 50; 48; 98; 47; 46; 46; 47; 99; 46; 116; 120; 116]
       /\ FilePath.to_file_path true u = FilePath.FOk p /\ C04_CostFile.to_file_path_k u = 57.
Proof. cbv zeta. split; [vm_compute; reflexivity|]. eexists. split; [vm_compute; reflexivity|]. vm_compute. repeat split. Qed.

(* THE INVENTORY TABLE, THIRD ROUND (Proofs/C04_Table3.v): eleven more of the rows that carried the trivial claim get a claim on
   the Gallina model of their function.  table3 is computed from C04_Table2.table2 and the list overrides3; the new rows get
   kind KRange:
     Url::port (a u16 on every wf_b record, and only with an authority), Url::has_host (false exactly when Url::host() is
     None; never disagrees with host_str() / domain(); no premise), Origin::is_tuple (false exactly when the ASCII
     serialization is "null"), Origin::ascii_serialization (ASCII whenever scheme and host text are), SchemeType::is_special
     / is_file (exactly the six special schemes / exactly "file"; a default port implies special-not-file),
     parser::ascii_alpha (exactly A-Z a-z), parser::is_windows_drive_letter (exactly letter + ':' or '|'),
     Serializer::encoding_override (the one Serializer method without panic outcome), Decoder::new (counters start at 0),
     DataUrl::mime_type (on a result of DataUrl::process: the first component of parse_header on the header text).
     (1) the key columns of table3 ARE the regenerated inventory T_C04_API;
     (2) every claim holds (the 48 of table2 and the 10 new ones), hence the claim of every row;
     (3) every override names exactly one row of table2, a K KByType row with the trivial claim, and its new claim is not
         the trivial one;
     (4) the rows that are not overridden keep kind and pinned theorem;
     (5) exactly the rows of kind K KByType / K KDocumented / K KHarness carry the trivial claim;
     (6) census: 145 rows with a claim on a model (76 KTheorem, 20 KExact, 17 KOutside, 32 KRange); 16 KByType,
         2 KDocumented, 4 KHarness: 22 rows with the trivial claim instead of 33;
     (7) the 22 rows are exactly those of C04_Table3.why_trivial (crate, name, reason), in source order: builders,
         constructors and field reads / moves without model function (ParseOptions::base_url / encoding_override,
         Url::options / as_str / into_string, Host::to_owned, SyntaxViolation::description, Parser::for_setter,
         quirks::internal_components / href, Idna::new, four Config builders, Uts46::new), the 2
         documented panics (Config::use_idna_2008_rules, AsciiDenyList::new) and the 4 functions without model
         (ParseOptions::syntax_violation_callback, Url::socket_addrs, serialize_internal, deserialize_internal). *)
From RU Require Proofs.C04_Table3.
Theorem C04_no_panic_inventory3 :
  map C04_Table3.row3_key C04_Table3.table3 = T_C04_API
  /\ ((forall q, C04_Table3.claim3 q)
      /\ Forall (fun r => C04_Table3.claim3 (C04_Table3.r3_claim r)) C04_Table3.table3)
  /\ C04_Table3.overrides3_sound_b = true
  /\ C04_Table3.table3_keeps_b = true
  /\ C04_Table3.kinds3_consistent_b = true
  /\ (length C04_Table3.table3 = 167%nat /\ length C04_Table3.overrides3 = 11%nat /\ C04_Table3.model_rows = 145%nat
      /\ C04_Table3.count_kind3 (C04_Table2.K C04_Table.KTheorem) = 76%nat
      /\ C04_Table3.count_kind3 (C04_Table2.K C04_Table.KExact) = 20%nat
      /\ C04_Table3.count_kind3 (C04_Table2.K C04_Table.KOutside) = 17%nat
      /\ C04_Table3.count_kind3 C04_Table2.KRange = 32%nat
      /\ C04_Table3.count_kind3 (C04_Table2.K C04_Table.KByType) = 16%nat
      /\ C04_Table3.count_kind3 (C04_Table2.K C04_Table.KDocumented) = 2%nat
      /\ C04_Table3.count_kind3 (C04_Table2.K C04_Table.KHarness) = 4%nat)
  /\ C04_Table3.why_total_b = true.
Proof.
  exact (conj C04_Table3.table3_complete (conj (conj C04_Table3.claims3_hold C04_Table3.table3_sound)
        (conj C04_Table3.overrides3_sound (conj C04_Table3.table3_keeps (conj C04_Table3.kinds3_consistent
        (conj C04_Table3.table3_counts C04_Table3.why_total)))))).
Qed.
Check C04_no_panic_inventory3 :
  map C04_Table3.row3_key C04_Table3.table3 = T_C04_API
  /\ ((forall q, C04_Table3.claim3 q)
      /\ Forall (fun r => C04_Table3.claim3 (C04_Table3.r3_claim r)) C04_Table3.table3)
  /\ C04_Table3.overrides3_sound_b = true
  /\ C04_Table3.table3_keeps_b = true
  /\ C04_Table3.kinds3_consistent_b = true
  /\ (length C04_Table3.table3 = 167%nat /\ length C04_Table3.overrides3 = 11%nat /\ C04_Table3.model_rows = 145%nat
      /\ C04_Table3.count_kind3 (C04_Table2.K C04_Table.KTheorem) = 76%nat
      /\ C04_Table3.count_kind3 (C04_Table2.K C04_Table.KExact) = 20%nat
      /\ C04_Table3.count_kind3 (C04_Table2.K C04_Table.KOutside) = 17%nat
      /\ C04_Table3.count_kind3 C04_Table2.KRange = 32%nat
      /\ C04_Table3.count_kind3 (C04_Table2.K C04_Table.KByType) = 16%nat
      /\ C04_Table3.count_kind3 (C04_Table2.K C04_Table.KDocumented) = 2%nat
      /\ C04_Table3.count_kind3 (C04_Table2.K C04_Table.KHarness) = 4%nat)
  /\ C04_Table3.why_total_b = true.
Print Assumptions C04_no_panic_inventory3.

(* non-vacuity of the new claims: concrete values *)
Example C04_inventory3_instances :
  (let u := mkUrl [104; 116; 116; 112; 58; 47; 47; 97; 58; 56; 49; 47] 4 7 7 8 HI_Domain (Some 81) 11 None None in
   wf_b u = true /\ port u = Some 81 /\ has_host u = true /\ host_str u = Some (Some [97]))
  /\ has_host (mkUrl [120; 58; 97] 1 2 2 2 HI_None None 2 None None) = false
  /\ Origin.is_tuple (Origin.Tuple s_https (HDomain [97; 46; 98]) 8443) = true
  /\ Origin.ascii_serialization (fun _ => []) (Origin.Tuple s_https (HDomain [97; 46; 98]) 8443)
     = [104; 116; 116; 112; 115; 58; 47; 47; 97; 46; 98; 58; 56; 52; 52; 51]
  /\ Origin.ascii_serialization (fun _ => []) (Origin.Opaque 7) = [110; 117; 108; 108]
  /\ st_is_special (scheme_type_of s_wss) = true /\ st_is_file (scheme_type_of s_file) = true
  /\ st_is_special (scheme_type_of [100; 97; 116; 97]) = false
  /\ is_alpha 122 = true /\ is_alpha 91 = false
  /\ is_wdl [67; 124] = true /\ is_normalized_wdl [67; 124] = false /\ is_wdl [67; 58; 47] = false
  (* data:a/b;base64,eA *)
  /\ (exists u, DataUrl.process [100; 97; 116; 97; 58; 97; 47; 98; 59; 98; 97; 115; 101; 54; 52; 44; 101; 65] = Mime.Ok (inl u)
                /\ Mime.m_type (DataUrl.mime_type u) = [97] /\ Mime.m_subtype (DataUrl.mime_type u) = [98]
                /\ DataUrl.du_base64 u = true).
Proof. vm_compute. repeat split. eexists. repeat split. Qed.
