(* Properties/C05.v - serialization alphabet.  Only statements, closed by `exact` / short assembly.
   ok_byte b = 0x21 <= b <= 0x7E; ok_or_space b = 0x20 <= b <= 0x7E.
   Input text is a list of code points (N); NO range condition is put on it unless stated: whatever
   numbers are fed to the encoders, only '%', upper-case hex digits and unreserved ASCII come out. *)
From RU Require Import Base.Prelude Base.Utf8 Base.Utf8Facts Model.AsciiSet Gen.Tables Model.PercentEncoding
  Model.HostT Model.UrlRecord Model.Parser Model.Setters Model.WF
  Proofs.C14_Set Proofs.C14_Enc Proofs.C14_Views Proofs.ListN
  Proofs.C05_Enc Proofs.C05_Parser Proofs.C05_Setters Proofs.C05_History Proofs.C05_Sharp Proofs.C05_Frag Proofs.C05_Query
  Proofs.C06_WFI Proofs.C06_FragQuery Proofs.C06_HostNone Proofs.C06_Host Proofs.C06_Path Proofs.C06_Main
  Proofs.C05_Comp Proofs.C05_PathClean Proofs.C05_CompSteps Proofs.C05_CompHist
  Proofs.C06_Path Proofs.C06_Segments Proofs.C04_ParseTotal Proofs.C03_ReachParts
  Proofs.C05_ParseUI Proofs.C05_ParseAll Proofs.C05_CompSteps2 Proofs.C05_CompReach Proofs.C05_ParseEx
  Proofs.C03_WF Proofs.C06_Suffix Proofs.C05_BaseOk Proofs.C05_CompSteps3 Proofs.C05_FinEx Proofs.C05_Alphabet
  Proofs.C05_AuthOfs Proofs.C05_AuthParse Proofs.C05_HostText Proofs.C15_Ser Proofs.C05_Qpm Proofs.C05_ReachF Proofs.C05_FinEx2
  Proofs.C05_HostClause Proofs.C05_HostParse Proofs.C05_HostInst
  Proofs.C05_PathSp Proofs.C05_PathSpParse Proofs.C05_PathSpSteps Proofs.C05_ReachFSp.
From RU Require Import Model.Host Proofs.C09_Host.
From RU Require Import Model.FormUrlencoded Model.QueryPairs.

(* ================= 1. encoder alphabet ================= *)

(* a member of the set, other than '%' and the upper-case hex digits, never appears in the output *)
Theorem C05_encoder_avoids : forall S bs c, bytes bs ->
  aset_contains S c = true -> c <> 37 -> is_hexu c = false -> ~ In c (encode S bs).
Proof. exact encode_avoids. Qed.
Check C05_encoder_avoids : forall S bs c, bytes bs ->
  aset_contains S c = true -> c <> 37 -> is_hexu c = false -> ~ In c (encode S bs).
Print Assumptions C05_encoder_avoids.

(* a set covering 0x00-0x20 and 0x7F yields 0x21..0x7E only; covering 0x00-0x1F and 0x7F yields 0x20..0x7E *)
Theorem C05_encoder_range : forall S bs, bytes bs ->
  ((forall b, b < 33 \/ b = 127 -> aset_contains S b = true) -> Forall ok_byte (encode S bs))
  /\ ((forall b, b < 32 \/ b = 127 -> aset_contains S b = true) -> Forall ok_or_space (encode S bs)).
Proof. intros S bs H. split; [exact (encode_ok S bs H) | exact (encode_ok_space S bs H)]. Qed.
Check C05_encoder_range : forall S bs, bytes bs ->
  ((forall b, b < 33 \/ b = 127 -> aset_contains S b = true) -> Forall ok_byte (encode S bs))
  /\ ((forall b, b < 32 \/ b = 127 -> aset_contains S b = true) -> Forall ok_or_space (encode S bs)).
Print Assumptions C05_encoder_range.

(* the same for what the iterator really writes, for ANY list of numbers (no `bytes` condition) *)
Theorem C05_display_alphabet : forall S xs,
  (forall c, aset_contains S c = true -> c <> 37 -> is_hexu c = false -> ~ In c (pe_display S xs))
  /\ ((forall b, b < 33 \/ b = 127 -> aset_contains S b = true) -> Forall ok_byte (pe_display S xs))
  /\ ((forall b, b < 32 \/ b = 127 -> aset_contains S b = true) -> Forall ok_or_space (pe_display S xs)).
Proof.
  intros S xs. split; [|split].
  - intros c. exact (pe_display_avoids S xs c).
  - exact (pe_display_ok S xs).
  - exact (pe_display_ok_space S xs).
Qed.
Check C05_display_alphabet : forall S xs,
  (forall c, aset_contains S c = true -> c <> 37 -> is_hexu c = false -> ~ In c (pe_display S xs))
  /\ ((forall b, b < 33 \/ b = 127 -> aset_contains S b = true) -> Forall ok_byte (pe_display S xs))
  /\ ((forall b, b < 32 \/ b = 127 -> aset_contains S b = true) -> Forall ok_or_space (pe_display S xs)).
Print Assumptions C05_display_alphabet.

(* adds_clean set D (Proofs/C05_Parser.v): for every serialization prefix and every text (ANY code
   points), push_encoded set ser text = ser ++ added with `added` inside 0x21..0x7E and free of D *)
(* / : ; = @ [ \ ] ^ | ? # space dquote < > backtick { } *)
Theorem C05_userinfo_enc :
  adds_clean T_USERINFO [47; 58; 59; 61; 64; 91; 92; 93; 94; 124; 63; 35; 32; 34; 60; 62; 96; 123; 125].
Proof. apply adds_clean_of; [apply T_USERINFO_facts | apply T_USERINFO_facts | reflexivity]. Qed.
Check C05_userinfo_enc :
  adds_clean T_USERINFO [47; 58; 59; 61; 64; 91; 92; 93; 94; 124; 63; 35; 32; 34; 60; 62; 96; 123; 125].
Print Assumptions C05_userinfo_enc.

(* PATH: ? # space dquote < > backtick { } ; PATH_SEGMENT additionally / ; SPECIAL_PATH_SEGMENT additionally \ ;
   both segment sets contain '%', so an input '%' is itself escaped and decoding gives the text back *)
Theorem C05_path_enc :
  adds_clean T_PATH [63; 35; 32; 34; 60; 62; 96; 123; 125]
  /\ adds_clean T_PATH_SEGMENT [47; 63; 35; 32; 34; 60; 62; 96; 123; 125]
  /\ adds_clean T_SPECIAL_PATH_SEGMENT [92; 47; 63; 35; 32; 34; 60; 62; 96; 123; 125]
  /\ aset_contains T_PATH_SEGMENT 37 = true /\ aset_contains T_SPECIAL_PATH_SEGMENT 37 = true
  /\ (forall text, usv_list text ->
        decode (pe_display T_PATH_SEGMENT (utf8_encode text)) = utf8_encode text
        /\ decode (pe_display T_SPECIAL_PATH_SEGMENT (utf8_encode text)) = utf8_encode text).
Proof. exact path_enc_facts. Qed.
Print Assumptions C05_path_enc.

(* QUERY: # space dquote < > ; SPECIAL_QUERY additionally the apostrophe *)
Theorem C05_query_enc :
  adds_clean T_QUERY [35; 32; 34; 60; 62] /\ adds_clean T_SPECIAL_QUERY [39; 35; 32; 34; 60; 62].
Proof.
  split; apply adds_clean_of;
    [apply T_QUERY_facts | apply T_QUERY_facts | reflexivity
     | apply T_SPECIAL_QUERY_facts | apply T_SPECIAL_QUERY_facts | reflexivity].
Qed.
Check C05_query_enc :
  adds_clean T_QUERY [35; 32; 34; 60; 62] /\ adds_clean T_SPECIAL_QUERY [39; 35; 32; 34; 60; 62].
Print Assumptions C05_query_enc.

(* FRAGMENT: space dquote < > backtick *)
Theorem C05_fragment_enc : adds_clean T_FRAGMENT [32; 34; 60; 62; 96].
Proof. apply adds_clean_of; [apply T_FRAGMENT_facts | apply T_FRAGMENT_facts | reflexivity]. Qed.
Check C05_fragment_enc : adds_clean T_FRAGMENT [32; 34; 60; 62; 96].
Print Assumptions C05_fragment_enc.

(* opaque path (CONTROLS): 0x20..0x7E; and for text (code points of a str) the output is that of the C14 map *)
Theorem C05_opaque_enc :
  (forall ser text, exists added,
      push_encoded T_CONTROLS ser text = ser ++ added /\ Forall ok_or_space added)
  /\ (forall set text, usv_list text ->
        pe_display set (utf8_encode text) = encode set (utf8_encode text) /\ ascii (encode set (utf8_encode text))).
Proof.
  split.
  - intros ser text. eexists. split; [reflexivity|]. apply pe_display_ok_space, T_CONTROLS_c0.
  - intros set text Hu. split; [exact (push_text_is_encode set text Hu)|].
    apply encode_ascii, utf8_encode_bytes. exact Hu.
Qed.
Print Assumptions C05_opaque_enc.

(* ================= 2. the whole parser ================= *)

(* Hypothesis on the three host functions (Section variables of the parser model):
   HostOK hp hpo hd := every host value h that is HDomain [] or a result Ok h of hp or of hpo
   is displayed by hd inside 0x21..0x7E. *)
Theorem C05_parse : forall dbg hp hpo hd ovr base input u,
  HostOK hp hpo hd ->
  match base with Some b => Forall ok_or_space (ser b) | None => True end ->
  parse_url dbg hp hpo hd ovr base input = POk u ->
  Forall ok_or_space (ser u).
Proof.
  intros dbg hp hpo hd ovr base input u HOK Hb Hp.
  exact (parse_url_okl ok_or_space ok_byte_or_space dbg hp hpo hd ovr HOK base input u
           (fun _ => ok_or_space_32) Hp Hb).
Qed.
Check C05_parse : forall dbg hp hpo hd ovr base input u,
  HostOK hp hpo hd ->
  match base with Some b => Forall ok_or_space (ser b) | None => True end ->
  parse_url dbg hp hpo hd ovr base input = POk u ->
  Forall ok_or_space (ser u).
Print Assumptions C05_parse.

(* the sharper form: U+0020 only with an opaque path.  `sharp u` = every byte in 0x21..0x7E, or
   (every byte in 0x20..0x7E, the bytes up to and including the ':' in 0x21..0x7E, the scheme not
   special, and cannot_be_a_base u = Some true).  Preserved from the base to the result. *)
Theorem C05_bytes : forall dbg hp hpo hd ovr base input u,
  HostOK hp hpo hd -> usv_list input ->
  match base with Some b => sharp b | None => True end ->
  parse_url dbg hp hpo hd ovr base input = POk u ->
  sharp u.
Proof. intros dbg hp hpo hd ovr base input u HOK. exact (parse_url_sharp dbg hp hpo hd ovr HOK base input u). Qed.
Check C05_bytes : forall dbg hp hpo hd ovr base input u,
  HostOK hp hpo hd -> usv_list input ->
  match base with Some b => sharp b | None => True end ->
  parse_url dbg hp hpo hd ovr base input = POk u ->
  sharp u.
Print Assumptions C05_bytes.

(* a component clause for the STORED slice: the fragment of every parse result (no hypothesis on the
   host functions, on the base - its fragment is never kept - or on the input) and of every
   set_fragment(Some _) result is inside 0x21..0x7E and free of space, dquote, '<', '>', backtick *)
Theorem C05_fragment : forall dbg dbg' hp hpo hd ovr base input u f,
  parse_url dbg hp hpo hd ovr base input = POk u -> fragment dbg' u = Some (Some f) ->
  Forall ok_byte f /\ forall d, In d [32; 34; 60; 62; 96] -> ~ In d f.
Proof.
  intros dbg dbg' hp hpo hd ovr base input u f Hp Hf.
  exact (frag_oku_fragment dbg' u f (parse_url_frag dbg hp hpo hd ovr base input u Hp) Hf).
Qed.
Check C05_fragment : forall dbg dbg' hp hpo hd ovr base input u f,
  parse_url dbg hp hpo hd ovr base input = POk u -> fragment dbg' u = Some (Some f) ->
  Forall ok_byte f /\ forall d, In d [32; 34; 60; 62; 96] -> ~ In d f.
Print Assumptions C05_fragment.

Theorem C05_set_fragment : forall dbg dbg' u input u' f,
  set_fragment dbg u (Some input) = Some u' -> fragment dbg' u' = Some (Some f) ->
  Forall ok_byte f /\ forall d, In d [32; 34; 60; 62; 96] -> ~ In d f.
Proof.
  intros dbg dbg' u input u' f Hs Hf.
  exact (frag_oku_fragment dbg' u' f (set_fragment_frag dbg u input u' Hs) Hf).
Qed.
Check C05_set_fragment : forall dbg dbg' u input u' f,
  set_fragment dbg u (Some input) = Some u' -> fragment dbg' u' = Some (Some f) ->
  Forall ok_byte f /\ forall d, In d [32; 34; 60; 62; 96] -> ~ In d f.
Print Assumptions C05_set_fragment.

(* the same for the stored query.  query_oku u (Proofs/C05_Query.v): if query_start u = Some q then
   ser u = X ++ "?" ++ tq ++ rest with q = |X|, tq inside 0x21..0x7E and free of '#', space, dquote,
   '<', '>', and rest = [] (no fragment) or fragment_start u = |X| + 1 + |tq|.  A base must have that
   shape (its query is kept by an empty or fragment-only reference); the result has it again, so the
   statement chains along joins.  Any encoding override, any input, no hypothesis on the host functions. *)
Theorem C05_query : forall dbg dbg' hp hpo hd ovr base input u,
  match base with Some b => query_oku b | None => True end ->
  parse_url dbg hp hpo hd ovr base input = POk u ->
  query_oku u
  /\ forall q, query dbg' u = Some (Some q) -> Forall ok_byte q /\ forall d, In d [35; 32; 34; 60; 62] -> ~ In d q.
Proof.
  intros dbg dbg' hp hpo hd ovr base input u Hb Hp.
  pose proof (parse_url_query dbg hp hpo hd ovr base input u Hb Hp) as H.
  split; [exact H | intros q Hq; exact (query_oku_query dbg' u q H Hq)].
Qed.
Check C05_query : forall dbg dbg' hp hpo hd ovr base input u,
  match base with Some b => query_oku b | None => True end ->
  parse_url dbg hp hpo hd ovr base input = POk u ->
  query_oku u
  /\ forall q, query dbg' u = Some (Some q) -> Forall ok_byte q /\ forall d, In d [35; 32; 34; 60; 62] -> ~ In d q.
Print Assumptions C05_query.

(* ================= 3. histories ================= *)
(* Reachable dbg hp hpo hd : parse without base, parse against a reachable base (any encoding
   override), and any of 19 mutators (9 Url setters, path_segments_mut sessions, 9 quirks setters) with
   arbitrary arguments applied to a reachable Url.  IpOK hd : IPv4/IPv6 values print inside 0x21..0x7E. *)
Theorem C05_history : forall dbg hp hpo hd u,
  HostOK hp hpo hd -> IpOK hd ->
  Reachable dbg hp hpo hd u -> Forall ok_or_space (ser u).
Proof.
  intros dbg hp hpo hd u HOK HIP Hr.
  exact (reachable_okl dbg hp hpo hd ok_or_space ok_byte_or_space ok_or_space_32 HOK HIP u Hr).
Qed.
Check C05_history : forall dbg hp hpo hd u,
  HostOK hp hpo hd -> IpOK hd ->
  Reachable dbg hp hpo hd u -> Forall ok_or_space (ser u).
Print Assumptions C05_history.

(* ================= 4. the component clauses along histories ================= *)
(* The two statements below are for EVERY reachable Url (Reachable contains every mutator with arbitrary
   arguments, hence also the records the known defects F-C02-2/-3/-4/-8, F-C03-5 produce).  On the pinned
   code both were FALSE (finding F-C06-6, found by this proof attempt and confirmed on the crate:
   Url::parse("a:b") then set_path("<TAB>/ y") gave "a:/ y" - not cannot-be-a-base, path "/ y").  The code
   was repaired (0cfc9d8: set_path tests for the leading '/' on the TAB / LF / CR-free input) and the
   model follows it; the former witness now stays an opaque path (C05_F_C06_6_fixed).  With the repair
   no counter-witness is known (a search over histories on the repaired crate found none); the statements
   are kept as stated, NOT proved: what is proved is the gated form below. *)
Definition C05_history_sharp_statement : Prop :=
  forall dbg hp hpo hd u, HostOK hp hpo hd -> IpOK hd -> Reachable dbg hp hpo hd u -> sharp u.

Definition C05_components_statement : Prop :=
  forall dbg hp hpo hd u, HostOK hp hpo hd -> IpOK hd -> Reachable dbg hp hpo hd u ->
  (forall un, username dbg u = Some un ->
     forall d, In d [47; 58; 59; 61; 64; 91; 92; 93; 94; 124; 63; 35; 32; 34; 60; 62; 96; 123; 125] -> ~ In d un)
  /\ (forall pw, password dbg u = Some (Some pw) ->
     forall d, In d [47; 58; 59; 61; 64; 91; 92; 93; 94; 124; 63; 35; 32; 34; 60; 62; 96; 123; 125] -> ~ In d pw)
  /\ (cannot_be_a_base u = Some false -> forall p, path u = Some p ->
     forall d, In d [63; 35; 32; 34; 60; 62; 96; 123; 125] -> ~ In d p)
  /\ (forall q, query dbg u = Some (Some q) -> forall d, In d [35; 32; 34; 60; 62] -> ~ In d q)
  /\ (forall f, fragment dbg u = Some (Some f) -> forall d, In d [32; 34; 60; 62; 96] -> ~ In d f).

(* regression for F-C06-6: parse "a:b", set_path [TAB; '/'; ' '; 'y'] is reachable and gives "a:%2F y":
   well-formed, still cannot-be-a-base, and `sharp` (the space is inside an opaque path) *)
Theorem C05_F_C06_6_fixed : forall dbg,
  Reachable dbg no_hp no_hp no_hd cw_end
  /\ ser cw_end = [97; 58; 37; 50; 70; 32; 121]
  /\ wf_b cw_end = true /\ cannot_be_a_base cw_end = Some true /\ sharp cw_end.
Proof.
  intros dbg. destruct cw_fixed as (_ & W & _ & C & _ & S).
  split; [apply cw_reachable|]. split; [reflexivity|]. split; [exact W|]. split; [exact C | exact S].
Qed.
Check C05_F_C06_6_fixed : forall dbg,
  Reachable dbg no_hp no_hp no_hd cw_end
  /\ ser cw_end = [97; 58; 37; 50; 70; 32; 121]
  /\ wf_b cw_end = true /\ cannot_be_a_base cw_end = Some true /\ sharp cw_end.
Print Assumptions C05_F_C06_6_fixed.

(* What IS proved.  The hierarchical path states (parse_path_start and everything below it: segments,
   dot segments, drive letters, the file fix-up) in EVERY context - URL parser, Url::set_path,
   path_segments_mut - and for ANY input numbers keep the text in front of the path and write no byte of
   ? # space dquote < > backtick { } *)
Theorem C05_path_states : forall dbg ctx st hh s0 l s1 hh' rem,
  parse_path_start dbg ctx st hh s0 l = POk (s1, hh', rem) ->
  exists P, s1 = s0 ++ P /\ forall d, In d [63; 35; 32; 34; 60; 62; 96; 123; 125] -> ~ In d P.
Proof.
  intros dbg ctx st hh s0 l s1 hh' rem H.
  destruct (parse_path_start_clean dbg ctx st hh s0 l s1 hh' rem H) as (P & E & HP).
  exists P. split; [exact E | exact (pq_free P HP)].
Qed.
Check C05_path_states : forall dbg ctx st hh s0 l s1 hh' rem,
  parse_path_start dbg ctx st hh s0 l = POk (s1, hh', rem) ->
  exists P, s1 = s0 ++ P /\ forall d, In d [63; 35; 32; 34; 60; 62; 96; 123; 125] -> ~ In d P.
Print Assumptions C05_path_states.

(* The clauses as an invariant.  components_clean dbg u = the five clauses of the statement above for the
   record u.  CInv dbg u = wfh u (C06's invariant: wf_b + host_text_ok) /\ comp_ok dbg u, where comp_ok is
   components_clean with the path clause in the form "a stored path that starts with '/' is free of
   ? # space dquote < > backtick { }" (on a well-formed record this gives the clause of the text:
   a path that is not opaque is empty or starts with '/').
   step_gate hd u o u' (Proofs/C05_CompHist.v) excludes, by computable conditions on the two records and
   the argument, exactly the known classes: set_host(None) with an empty path or a "//"-led path
   (F-C06-5, F-C02-2), host setters on a marker URL or an empty new host over a stored port (F-C03-5,
   F-C02-4), set_path with '?' / '#' into an opaque path (F-C02-3), a "//"-led result without marker or a
   marker in front of a path that is not "//"-led (F-C02-8, F-C03-5); arguments are &str (usv_list) and
   u16.  set_path on an opaque path needs no further exclusion (F-C06-6 is repaired: the path stays
   opaque, C06_get_path_opaque).  NOT covered by this theorem (gate False): path_segments_mut sessions and the
   quirks setters set_host / set_hostname / set_port / set_pathname - see C05_components_step2 below. *)
Theorem C05_components_step : forall dbg hp hpo hd u o u',
  CInv dbg u -> step_gate hd u o u' -> apply_op dbg hp hpo hd u o = Some u' ->
  CInv dbg u' /\ components_clean dbg u'.
Proof.
  intros dbg hp hpo hd u o u' K G H. pose proof (cinv_step dbg hp hpo hd u o u' K G H) as K'.
  split; [exact K'|]. destruct K' as [[W _] C]. exact (comp_ok_components dbg u' W C).
Qed.
Check C05_components_step : forall dbg hp hpo hd u o u',
  CInv dbg u -> step_gate hd u o u' -> apply_op dbg hp hpo hd u o = Some u' ->
  CInv dbg u' /\ components_clean dbg u'.
Print Assumptions C05_components_step.

(* along every history of gated steps (GHist: reflexive-transitive closure of gated apply_op steps) *)
Theorem C05_components_history : forall dbg hp hpo hd u u',
  GHist dbg hp hpo hd u u' -> CInv dbg u -> wfh u' /\ components_clean dbg u'.
Proof. exact components_history. Qed.
Check C05_components_history : forall dbg hp hpo hd u u',
  GHist dbg hp hpo hd u u' -> CInv dbg u -> wfh u' /\ components_clean dbg u'.
Print Assumptions C05_components_history.

(* a start class with a computable recogniser: every parse result (no base, any encoding override, no
   hypothesis on the host functions) of an input  scheme ":" rest  with a non-special scheme and rest not
   starting with '/' (C02's opaque-input class) satisfies CInv *)
Theorem C05_components_parse_opaque : forall dbg hp hpo hd ovr input u,
  usv_list input -> opaque_start input = true ->
  parse_url dbg hp hpo hd ovr None input = POk u -> CInv dbg u /\ cannot_be_a_base u = Some true.
Proof. exact parse_opaque_cinv. Qed.
Check C05_components_parse_opaque : forall dbg hp hpo hd ovr input u,
  usv_list input -> opaque_start input = true ->
  parse_url dbg hp hpo hd ovr None input = POk u -> CInv dbg u /\ cannot_be_a_base u = Some true.
Print Assumptions C05_components_parse_opaque.

(* The statement for EVERY parse result as it was first written: HostOK (host display inside 0x21..0x7E) as the
   only hypothesis on the host functions and CInv as the only hypothesis on the base. *)
Definition C05_components_parse_statement : Prop :=
  forall dbg hp hpo hd ovr base input u, HostOK hp hpo hd ->
    match base with Some b => CInv dbg b | None => True end ->
    parse_url dbg hp hpo hd ovr base input = POk u -> CInv dbg u.

(* In that form it is FALSE of the model - not a defect of the crate: a Display for Host that prints ":" for a
   domain satisfies HostOK, and with it "a://x" gives the record "a://:" which is not well-formed (the witness
   of C03_reachability_statement_refuted; url::Host never prints such a text).  CInv contains wf_b, so the
   statement needs C03's hypothesis HostWf (non-empty host text that does not start with ':' / '@' and does
   not end with '/'; C09_host_model_ok discharges it for the host model) and C03's base_ok for the base. *)
Theorem C05_components_parse_statement_refuted : ~ C05_components_parse_statement.
Proof.
  intros H. destruct parse_statement_witness as (u & Hp & Hn). apply Hn.
  exact (H true _ _ _ None None _ u bad_host_ok I Hp).
Qed.
Check C05_components_parse_statement_refuted : ~ C05_components_parse_statement.
Print Assumptions C05_components_parse_statement_refuted.

(* the userinfo state (any input numbers): what parse_userinfo leaves behind "scheme://" is nothing, "un@" or
   "un:pw@" with un and pw free of / : ; = @ [ \ ] ^ | ? # space dquote < > backtick { }, and username_end
   points behind un *)
Theorem C05_userinfo_state : forall st ser0 l ser1 ue rem,
  parse_userinfo st ser0 l = POk (ser1, ue, rem) ->
  exists un t, free D_USERINFO un /\ ue = nlen ser0 + nlen un /\ ser1 = ser0 ++ un ++ t
    /\ (t = [] \/ t = [64] \/ exists pw, free D_USERINFO pw /\ t = [58] ++ pw ++ [64]).
Proof. exact parse_userinfo_ui. Qed.
Check C05_userinfo_state : forall st ser0 l ser1 ue rem,
  parse_userinfo st ser0 l = POk (ser1, ue, rem) ->
  exists un t, free D_USERINFO un /\ ue = nlen ser0 + nlen un /\ ser1 = ser0 ++ un ++ t
    /\ (t = [] \/ t = [64] \/ exists pw, free D_USERINFO pw /\ t = [58] ++ pw ++ [64]).
Print Assumptions C05_userinfo_state.

(* CInv - hence all five clauses of the property text on the STORED slices - for EVERY record parse_url returns:
   every scheme (file and drive letters included), with or without a base (absolute URLs and relative references
   of every kind), ANY input numbers (no scalar-value condition), any encoding override, both build
   configurations; the getters may be read with either build configuration (dbg').  Hypotheses: HostWf on the
   host functions (needed for wf_b only - the clauses do not look at the host text) and, for a base,
   CInv /\ base_ok (base_ok b = wf_b b, and a base with a special scheme is not cannot-be-a-base). *)
Theorem C05_components_parse : forall dbg dbg' hp hpo hd ovr base input u, HostWf hp hpo hd ->
  match base with Some b => CInv dbg' b /\ base_ok b = true | None => True end ->
  parse_url dbg hp hpo hd ovr base input = POk u -> CInv dbg' u /\ components_clean dbg' u.
Proof.
  intros dbg dbg' hp hpo hd ovr base input u HW Hb Hp.
  pose proof (parse_url_cinv dbg dbg' hp hpo hd ovr base input u HW Hb Hp) as K.
  split; [exact K|]. destruct K as [[W _] C]. exact (comp_ok_components dbg' u W C).
Qed.
Check C05_components_parse : forall dbg dbg' hp hpo hd ovr base input u, HostWf hp hpo hd ->
  match base with Some b => CInv dbg' b /\ base_ok b = true | None => True end ->
  parse_url dbg hp hpo hd ovr base input = POk u -> CInv dbg' u /\ components_clean dbg' u.
Print Assumptions C05_components_parse.

(* the userinfo and path clauses alone need no hypothesis on the host functions at all.  up_ok u
   (Proofs/C05_ParseUI.v): the slices [scheme_end+3, username_end) and [username_end+1, host_start-1) of the
   serialization are free of the userinfo delimiters and a stored path that starts with '/' is free of
   ? # space dquote < > backtick { };  base_c b = base_ok b /\ up_ok b. *)
Theorem C05_userinfo_path_parse : forall dbg hp hpo hd ovr base input u,
  match base with Some b => base_c b | None => True end ->
  parse_url dbg hp hpo hd ovr base input = POk u -> up_ok u.
Proof. exact parse_url_up. Qed.
Check C05_userinfo_path_parse : forall dbg hp hpo hd ovr base input u,
  match base with Some b => base_c b | None => True end ->
  parse_url dbg hp hpo hd ovr base input = POk u -> up_ok u.
Print Assumptions C05_userinfo_path_parse.

(* ---- all 19 mutators.  step_gate2 hp hpo hd u o u' (Proofs/C05_CompReach.v) = step_gate, and for the steps
   step_gate leaves out:
     path_segments_mut session : the pushed segments are &str and path_gate (F-C02-8 / F-C03-5) holds;
     quirks set_pathname       : the value is a &str, auth_end_ok and path_gate;
     quirks set_port           : no condition (it is Url::set_port with the parsed number);
     quirks set_hostname, Url::set_host(Some _) : host_gate = outside F-C03-5 (marker) and F-C02-4 (empty new
                                 host over a stored port) - the hypothesis "forall h, host_disp_ok hd h" of
                                 C05_components_step, which quantified over model values that no url::Host has,
                                 is replaced by HostWf (hosts the parser returns);
     quirks set_host           : host_gate and q_host_keeps_port (the value has no ':' part that parses as a
                                 port).  GAP: quirks set_host with a port part (set_host_internal with a new
                                 port has no frame lemma yet). *)
Theorem C05_components_step2 : forall dbg hp hpo hd u o u', HostWf hp hpo hd ->
  CInv dbg u -> step_gate2 hp hpo hd u o u' -> apply_op dbg hp hpo hd u o = Some u' ->
  CInv dbg u' /\ components_clean dbg u'.
Proof.
  intros dbg hp hpo hd u o u' HW K G H. pose proof (cinv_step2 dbg hp hpo hd HW u o u' K G H) as K'.
  split; [exact K'|]. destruct K' as [[W _] C]. exact (comp_ok_components dbg u' W C).
Qed.
Check C05_components_step2 : forall dbg hp hpo hd u o u', HostWf hp hpo hd ->
  CInv dbg u -> step_gate2 hp hpo hd u o u' -> apply_op dbg hp hpo hd u o = Some u' ->
  CInv dbg u' /\ components_clean dbg u'.
Print Assumptions C05_components_step2.

(* ---- every record reachable by parse, join and gated steps.  CReach dbg hp hpo hd (Proofs/C05_CompReach.v):
   parse without base; parse against a reached base b with base_ok b = true; a step of any of the 19 mutators
   with op_valid and step_gate2.  It is a subset of Reachable (C05_reach_sub).  This is the property text of C05
   for the component clauses on all histories outside the explicit known classes; the unrestricted statements
   C05_components_statement / C05_history_sharp_statement above stay stated, not proved: no counter-witness on
   the repaired code is known, but the invariant needs wf_b, which the records of the open defects
   (F-C02-2/-3/-4/-8, F-C03-5, F-C06-5) need not satisfy. *)
Theorem C05_components_reach : forall dbg hp hpo hd u, HostWf hp hpo hd ->
  CReach dbg hp hpo hd u -> wfh u /\ components_clean dbg u.
Proof. intros dbg hp hpo hd u HW. exact (creach_components dbg hp hpo hd HW u). Qed.
Check C05_components_reach : forall dbg hp hpo hd u, HostWf hp hpo hd ->
  CReach dbg hp hpo hd u -> wfh u /\ components_clean dbg u.
Print Assumptions C05_components_reach.

Theorem C05_reach_sub : forall dbg hp hpo hd u, CReach dbg hp hpo hd u -> Reachable dbg hp hpo hd u.
Proof. exact creach_reachable. Qed.
Check C05_reach_sub : forall dbg hp hpo hd u, CReach dbg hp hpo hd u -> Reachable dbg hp hpo hd u.
Print Assumptions C05_reach_sub.

(* the hypotheses are met: (Proofs/C05_ParseEx.v) with the host model of C02's examples, which satisfies HostWf,
   "http://u s:p@h.x/a/b?q" parses to a base with CInv and base_ok, and joining "../c d?r" gives
   "http://u%20s:p@h.x/c%20d?r" with CInv and base_ok again;
   and: parse "http://h.x/a/b?q"; path_segments_mut pop, push "c d"; quirks set_pathname "/x y<z";
   quirks set_hostname "o.x"; quirks set_port "81"; join "../w v#f`" - every gate holds and the result is
   "http://o.x:81/w%20v#f%60" *)
Example C05_components_parse_inhabited : parse_cinv_example_stmt.
Proof. exact parse_cinv_example. Qed.
Example C05_components_reach_inhabited : creach_example_stmt.
Proof. exact creach_example. Qed.

(* ---- every parse result is again a possible base.  base_ok u (Proofs/C04_ParseTotal.v) = wf_b u, and a special
   scheme is followed by ":/" (the record is not cannot-be-a-base).  The second half needs no hypothesis on the host
   functions and none on the input: bk u := st_is_special (scheme_type_of (b_scheme u)) = true ->
   nnth (ser u) (scheme_end u + 1) = Some 47, from a base that is well formed and satisfies bk. *)
Theorem C05_parse_special_slash : forall dbg hp hpo hd ovr base input u,
  match base with Some b => wf_b b = true /\ bk b | None => True end ->
  parse_url dbg hp hpo hd ovr base input = POk u -> bk u.
Proof. exact parse_url_bk. Qed.
Check C05_parse_special_slash : forall dbg hp hpo hd ovr base input u,
  match base with Some b => wf_b b = true /\ bk b | None => True end ->
  parse_url dbg hp hpo hd ovr base input = POk u -> bk u.
Print Assumptions C05_parse_special_slash.

(* with C03's parse_url_wf_all: the premises `base_ok b /\ host_text_ok b` of C03_parse_reachability, of
   C05_components_parse and of C04's no-panic theorem for a base reproduce themselves on the result, so along chains
   of parse and join they are needed for no link (C05_parse_join_chain below) *)
Theorem C05_parse_base_ok : forall dbg hp hpo hd ovr base input u, HostWf hp hpo hd ->
  match base with Some b => base_ok b = true /\ host_text_ok b | None => True end ->
  parse_url dbg hp hpo hd ovr base input = POk u -> base_ok u = true /\ host_text_ok u.
Proof. exact parse_url_base_ok. Qed.
Check C05_parse_base_ok : forall dbg hp hpo hd ovr base input u, HostWf hp hpo hd ->
  match base with Some b => base_ok b = true /\ host_text_ok b | None => True end ->
  parse_url dbg hp hpo hd ovr base input = POk u -> base_ok u = true /\ host_text_ok u.
Print Assumptions C05_parse_base_ok.

(* PJ dbg hp hpo hd (Proofs/C05_CompSteps3.v): parse without base, and parse against ANY record of PJ - no premise
   on the base.  Every such record is a possible base and satisfies wfh and the five clauses. *)
Theorem C05_parse_join_chain : forall dbg hp hpo hd u, HostWf hp hpo hd -> PJ dbg hp hpo hd u ->
  base_ok u = true /\ wfh u /\ components_clean dbg u.
Proof.
  intros dbg hp hpo hd u HW R. split; [exact (proj1 (pj_base_ok dbg hp hpo hd HW u R))|].
  apply (creach3_components_pj dbg hp hpo hd HW u R).
Qed.
Check C05_parse_join_chain : forall dbg hp hpo hd u, HostWf hp hpo hd -> PJ dbg hp hpo hd u ->
  base_ok u = true /\ wfh u /\ components_clean dbg u.
Print Assumptions C05_parse_join_chain.

(* ---- all 19 mutators, no gap left.  step_gate3 hp hpo hd u o u' (Proofs/C05_CompSteps3.v) = step_gate2 with
     quirks set_host   : host_gate alone (outside F-C03-5 / F-C02-4) - a ':port' part in the value is covered
                         (C06_Quirks.set_host_internal_port_post is the frame for set_host_internal with a new port);
     Url::set_ip_host  : the argument is an address value (ip_arg: Ipv4Addr = u32, Ipv6Addr = eight u16) and the URL is
                         outside F-C03-5; the hypothesis host_disp_ok hd h of step_gate on the argument is replaced by
                         the hypothesis IpDisp hd on the Display function (addresses print as a non-empty text that does
                         not start with ':' / '@'; C09_inst_IpDisp discharges it for the host model), and F-C02-4 cannot
                         occur (an address is never the empty host). *)
Theorem C05_components_step3 : forall dbg hp hpo hd u o u', HostWf hp hpo hd -> IpDisp hd ->
  CInv dbg u -> step_gate3 hp hpo hd u o u' -> apply_op dbg hp hpo hd u o = Some u' ->
  CInv dbg u' /\ components_clean dbg u'.
Proof.
  intros dbg hp hpo hd u o u' HW HI K G H. pose proof (cinv_step3 dbg hp hpo hd HW u o u' HI K G H) as K'.
  split; [exact K'|]. destruct K' as [[W _] C]. exact (comp_ok_components dbg u' W C).
Qed.
Check C05_components_step3 : forall dbg hp hpo hd u o u', HostWf hp hpo hd -> IpDisp hd ->
  CInv dbg u -> step_gate3 hp hpo hd u o u' -> apply_op dbg hp hpo hd u o = Some u' ->
  CInv dbg u' /\ components_clean dbg u'.
Print Assumptions C05_components_step3.

(* CReach3 dbg hp hpo hd: parse; parse against a reached base with base_ok (automatically true when the base is
   itself a parse / join result, C05_parse_base_ok; a premise only for a base that comes straight out of a mutator:
   that the mutators keep "special scheme => not cannot-be-a-base" is not proved); a step_gate3 step of any of the 19
   mutators.  A subset of Reachable (C05_reach3_sub). *)
Theorem C05_components_reach3 : forall dbg hp hpo hd u, HostWf hp hpo hd -> IpDisp hd ->
  CReach3 dbg hp hpo hd u -> wfh u /\ components_clean dbg u.
Proof. intros dbg hp hpo hd u HW HI. exact (creach3_components dbg hp hpo hd HW HI u). Qed.
Check C05_components_reach3 : forall dbg hp hpo hd u, HostWf hp hpo hd -> IpDisp hd ->
  CReach3 dbg hp hpo hd u -> wfh u /\ components_clean dbg u.
Print Assumptions C05_components_reach3.

Theorem C05_reach3_sub : forall dbg hp hpo hd u, CReach3 dbg hp hpo hd u -> Reachable dbg hp hpo hd u.
Proof. exact creach3_sub. Qed.
Check C05_reach3_sub : forall dbg hp hpo hd u, CReach3 dbg hp hpo hd u -> Reachable dbg hp hpo hd u.
Print Assumptions C05_reach3_sub.

(* the hypotheses are met and the new steps are taken: (Proofs/C05_FinEx.v) with the host model of C02's examples
   (HostWf, IpDisp): parse "http://h.x/a?q"; quirks set_host "o.x:81"; set_ip_host 1.2.3.4 ... - see fin_example_stmt *)
Example C05_components_reach3_inhabited : fin_example_stmt.
Proof. exact fin_example. Qed.

(* ---- from the component clauses to the alphabet of the WHOLE serialization (first sentence of the property text).
   alphabet_ok u (Proofs/C05_Alphabet.v) := ser u = A ++ pth ++ Z with path u = Some pth, A and Z inside 0x21..0x7E,
   pth inside 0x20..0x7E, and pth inside 0x21..0x7E unless cannot_be_a_base u: U+0020 solely inside an opaque path.
   It holds for every record with CInv whose bytes are inside 0x20..0x7E (C05_history: every reachable record) and
   whose stored host text has no space - the serialization is read as the concatenation of the accessors (C03_concat).
   What is missing for C05_history_sharp_statement along mutator histories is only that the host text of a reached
   record has no space (true of every parse result: C05_bytes), see C05_alphabet_reach. *)
Theorem C05_alphabet_of_components : forall dbg u, CInv dbg u -> Forall ok_or_space (ser u) ->
  (has_host u = true -> ~ In 32 (piece u (host_start u) (host_end u))) -> alphabet_ok u.
Proof. exact cinv_alphabet. Qed.
Check C05_alphabet_of_components : forall dbg u, CInv dbg u -> Forall ok_or_space (ser u) ->
  (has_host u = true -> ~ In 32 (piece u (host_start u) (host_end u))) -> alphabet_ok u.
Print Assumptions C05_alphabet_of_components.

(* the first sentence of the property text - only 0x21..0x7E, U+0020 solely inside an opaque path - for every record
   of CReach3 (parse, join, gated steps of all 19 mutators) whose stored host text has no space; IpOKv hd: address
   values print inside 0x21..0x7E.  GAP to C05_history_sharp_statement on CReach3: the condition on the host text of
   the reached record (it holds for every parse result by C05_bytes and is kept by the mutators - they copy the host
   text or write the Display of a parsed host / an address -, but this invariant is not proved along steps). *)
Theorem C05_alphabet_reach : forall dbg hp hpo hd u, HostWf hp hpo hd -> HostOK hp hpo hd -> IpDisp hd -> IpOKv hd ->
  CReach3 dbg hp hpo hd u ->
  (has_host u = true -> ~ In 32 (piece u (host_start u) (host_end u))) -> alphabet_ok u.
Proof. intros dbg hp hpo hd u HW HOK HI HV. exact (creach3_alphabet dbg hp hpo hd HW HOK HI HV u). Qed.
Check C05_alphabet_reach : forall dbg hp hpo hd u, HostWf hp hpo hd -> HostOK hp hpo hd -> IpDisp hd -> IpOKv hd ->
  CReach3 dbg hp hpo hd u ->
  (has_host u = true -> ~ In 32 (piece u (host_start u) (host_end u))) -> alphabet_ok u.
Print Assumptions C05_alphabet_reach.

(* the hypotheses of C05_alphabet_reach are met (Proofs/C05_FinEx.v): HostOK, IpOKv for the example host functions, and
   the reached record "http://1.2.3.4:81/w%20v" of C05_components_reach3_inhabited has a space-free host text *)
Example C05_alphabet_reach_inhabited : fin_alphabet_stmt.
Proof. exact fin_alphabet. Qed.

(* ================= 5. the final reachability relation: no premise on joins, query_pairs_mut included ================= *)
(* AS u (Proofs/C05_AuthOfs.v) := a special scheme is followed by "://" (scheme_end + 3 <= username_end; on a well-formed
   record: has_authority).  It holds for EVERY record parse_url returns - any input numbers, any override, NO hypothesis
   on the host functions - from a base that is well formed and satisfies AS.  With wf_b it gives base_ok (as_base_ok),
   i.e. the premise of the join steps of CReach / CReach3. *)
Theorem C05_special_authority_parse : forall dbg hp hpo hd ovr base input u,
  match base with Some b => wf_b b = true /\ AS b | None => True end ->
  parse_url dbg hp hpo hd ovr base input = POk u -> AS u.
Proof. exact parse_url_as. Qed.
Check C05_special_authority_parse : forall dbg hp hpo hd ovr base input u,
  match base with Some b => wf_b b = true /\ AS b | None => True end ->
  parse_url dbg hp hpo hd ovr base input = POk u -> AS u.
Print Assumptions C05_special_authority_parse.

(* ... and it is kept by every one of the 19 mutators with arbitrary arguments - no gate, no well-formedness: only the
   offsets are followed.  The one mutator that removes "//" is set_host(None), and only when the scheme is not special
   (second alternative; "file" keeps "file://"). *)
Theorem C05_special_authority_step : forall dbg hp hpo hd u o u',
  apply_op dbg hp hpo hd u o = Some u' -> AO u ->
  AO u' \/ exists sty, u_scheme_type u = Some sty /\ st_is_special sty = false.
Proof. exact apply_op_ao. Qed.
Check C05_special_authority_step : forall dbg hp hpo hd u o u',
  apply_op dbg hp hpo hd u o = Some u' -> AO u ->
  AO u' \/ exists sty, u_scheme_type u = Some sty /\ st_is_special sty = false.
Print Assumptions C05_special_authority_step.

(* what one gated step does to the scheme class and to the stored host text (FR, Proofs/C05_HostText.v):
   new scheme special -> old scheme special; host_str stays, becomes None, or becomes the Display of an address value
   (set_ip_host) or of a host returned by the host parser of the scheme class of the URL (hp for special schemes, hpo
   otherwise) *)
Theorem C05_step_frame : forall dbg hp hpo hd u o u', HostWf hp hpo hd -> IpDisp hd ->
  CInv dbg u -> step_gate3 hp hpo hd u o u' -> apply_op dbg hp hpo hd u o = Some u' -> FR hp hpo hd u u'.
Proof. intros dbg hp hpo hd u o u' HW HI. exact (frame_step3 dbg hp hpo hd HW u o u' HI). Qed.
Check C05_step_frame : forall dbg hp hpo hd u o u', HostWf hp hpo hd -> IpDisp hd ->
  CInv dbg u -> step_gate3 hp hpo hd u o u' -> apply_op dbg hp hpo hd u o = Some u' -> FR hp hpo hd u u'.
Print Assumptions C05_step_frame.

(* the host text of a parse result, for ANY input numbers (C05_bytes needs scalar values for the head of an opaque path;
   the host text does not): the result lies entirely inside 0x21..0x7E or has no host *)
Theorem C05_parse_host_bytes : forall dbg dbg' hp hpo hd ovr base input u, HostOK hp hpo hd ->
  match base with
  | Some b => CInv dbg' b /\ Forall ok_or_space (ser b) /\ bk b /\ HTx (fun s => ~ In 32 s) b
  | None => True
  end ->
  parse_url dbg hp hpo hd ovr base input = POk u -> Forall ok_byte (ser u) \/ hosti u = HI_None.
Proof. intros dbg dbg' hp hpo hd ovr base input u HOK. exact (parse_url_host_bytes dbg hp hpo hd ovr HOK dbg' base input u). Qed.
Check C05_parse_host_bytes : forall dbg dbg' hp hpo hd ovr base input u, HostOK hp hpo hd ->
  match base with
  | Some b => CInv dbg' b /\ Forall ok_or_space (ser b) /\ bk b /\ HTx (fun s => ~ In 32 s) b
  | None => True
  end ->
  parse_url dbg hp hpo hd ovr base input = POk u -> Forall ok_byte (ser u) \/ hosti u = HI_None.
Print Assumptions C05_parse_host_bytes.

(* Url::query_pairs_mut sessions (Model/QueryPairs.v; operations with &str arguments, C15's op_ok): CInv, the byte
   alphabet, the offsets scheme_end / username_end, the scheme and the host text are kept - the new query text consists
   of bytes of the form_urlencoded output alphabet and of bytes of the old query *)
Theorem C05_query_pairs_step : forall dbg u ops u', CInv dbg u -> Forall ok_or_space (ser u) -> Forall op_ok ops ->
  query_pairs_session dbg u ops = Some u' ->
  CInv dbg u' /\ Forall ok_or_space (ser u') /\ sf u u' /\ scheme u' = scheme u /\ host_str u' = host_str u.
Proof. exact qpm_inv. Qed.
Check C05_query_pairs_step : forall dbg u ops u', CInv dbg u -> Forall ok_or_space (ser u) -> Forall op_ok ops ->
  query_pairs_session dbg u ops = Some u' ->
  CInv dbg u' /\ Forall ok_or_space (ser u') /\ sf u u' /\ scheme u' = scheme u /\ host_str u' = host_str u.
Print Assumptions C05_query_pairs_step.

(* CReachF dbg hp hpo hd (Proofs/C05_ReachF.v): parse; parse against ANY reached record - NO premise on the base; a
   step_gate3 step of any of the 19 mutators; a query_pairs_mut session with &str arguments.  CReach3 is a part of it
   (C05_reach3_in_F); it is a part of ReachableQ = C05's Reachable plus query_pairs_mut sessions (C05_reachF_sub,
   C05_reachable_in_Q).  Hypotheses: only those on the host functions -
     HostWf (C03: parsed hosts print as a non-empty text that does not start with ':' / '@' and does not end with '/'),
     HostOK (parsed hosts print inside 0x21..0x7E), IpDisp / IpOKv (the same two for address values).
   FInv: CInv /\ AS /\ every byte inside 0x20..0x7E /\ the stored host text has no space. *)
Theorem C05_reachF_invariant : forall dbg hp hpo hd u, HostWf hp hpo hd -> HostOK hp hpo hd -> IpDisp hd -> IpOKv hd ->
  CReachF dbg hp hpo hd u -> FInv dbg u.
Proof. intros dbg hp hpo hd u HW HOK HI HV. exact (creachF_inv dbg hp hpo hd HW HOK HI HV u). Qed.
Check C05_reachF_invariant : forall dbg hp hpo hd u, HostWf hp hpo hd -> HostOK hp hpo hd -> IpDisp hd -> IpOKv hd ->
  CReachF dbg hp hpo hd u -> FInv dbg u.
Print Assumptions C05_reachF_invariant.

(* every reached record is a possible base: the premise `base_ok b` of CR_join / CR3_join is an invariant *)
Theorem C05_reachF_base_ok : forall dbg hp hpo hd u, HostWf hp hpo hd -> HostOK hp hpo hd -> IpDisp hd -> IpOKv hd ->
  CReachF dbg hp hpo hd u -> base_ok u = true /\ host_text_ok u.
Proof. intros dbg hp hpo hd u HW HOK HI HV. exact (creachF_base_ok dbg hp hpo hd HW HOK HI HV u). Qed.
Check C05_reachF_base_ok : forall dbg hp hpo hd u, HostWf hp hpo hd -> HostOK hp hpo hd -> IpDisp hd -> IpOKv hd ->
  CReachF dbg hp hpo hd u -> base_ok u = true /\ host_text_ok u.
Print Assumptions C05_reachF_base_ok.

(* the component clauses of the property text *)
Theorem C05_components_reachF : forall dbg hp hpo hd u, HostWf hp hpo hd -> HostOK hp hpo hd -> IpDisp hd -> IpOKv hd ->
  CReachF dbg hp hpo hd u -> wfh u /\ components_clean dbg u.
Proof. intros dbg hp hpo hd u HW HOK HI HV. exact (creachF_components dbg hp hpo hd HW HOK HI HV u). Qed.
Check C05_components_reachF : forall dbg hp hpo hd u, HostWf hp hpo hd -> HostOK hp hpo hd -> IpDisp hd -> IpOKv hd ->
  CReachF dbg hp hpo hd u -> wfh u /\ components_clean dbg u.
Print Assumptions C05_components_reachF.

(* the first sentence of the property text, in both forms: alphabet_ok (ser u = A ++ path ++ Z, A and Z inside 0x21..0x7E,
   the path too unless cannot-be-a-base) and `sharp` (the predicate of C05_bytes / C05_history_sharp_statement).  No
   premise on the reached record is left (C05_alphabet_reach had "the stored host text has no space"). *)
Theorem C05_alphabet_reachF : forall dbg hp hpo hd u, HostWf hp hpo hd -> HostOK hp hpo hd -> IpDisp hd -> IpOKv hd ->
  CReachF dbg hp hpo hd u -> alphabet_ok u.
Proof. intros dbg hp hpo hd u HW HOK HI HV. exact (creachF_alphabet dbg hp hpo hd HW HOK HI HV u). Qed.
Check C05_alphabet_reachF : forall dbg hp hpo hd u, HostWf hp hpo hd -> HostOK hp hpo hd -> IpDisp hd -> IpOKv hd ->
  CReachF dbg hp hpo hd u -> alphabet_ok u.
Print Assumptions C05_alphabet_reachF.

(* C05_history_sharp_statement with CReachF in the place of Reachable (and the two hypotheses HostWf, IpDisp that
   well-formedness needs) *)
Theorem C05_history_sharp_partial2 : forall dbg hp hpo hd u, HostWf hp hpo hd -> HostOK hp hpo hd -> IpDisp hd -> IpOKv hd ->
  CReachF dbg hp hpo hd u -> sharp u.
Proof. intros dbg hp hpo hd u HW HOK HI HV. exact (creachF_sharp dbg hp hpo hd HW HOK HI HV u). Qed.
Check C05_history_sharp_partial2 : forall dbg hp hpo hd u, HostWf hp hpo hd -> HostOK hp hpo hd -> IpDisp hd -> IpOKv hd ->
  CReachF dbg hp hpo hd u -> sharp u.
Print Assumptions C05_history_sharp_partial2.

Theorem C05_reach3_in_F : forall dbg hp hpo hd u, CReach3 dbg hp hpo hd u -> CReachF dbg hp hpo hd u.
Proof. exact creach3_F. Qed.
Check C05_reach3_in_F : forall dbg hp hpo hd u, CReach3 dbg hp hpo hd u -> CReachF dbg hp hpo hd u.
Print Assumptions C05_reach3_in_F.

(* the same for CReach3 itself: the premise `base_ok b` of CR3_join is redundant (every record of CReach3 satisfies it),
   and C05_alphabet_reach holds without its premise on the host text, in the `sharp` form *)
Theorem C05_reach3_sharp : forall dbg hp hpo hd u, HostWf hp hpo hd -> HostOK hp hpo hd -> IpDisp hd -> IpOKv hd ->
  CReach3 dbg hp hpo hd u -> base_ok u = true /\ alphabet_ok u /\ sharp u.
Proof.
  intros dbg hp hpo hd u HW HOK HI HV R. pose proof (creach3_F dbg hp hpo hd u R) as RF.
  split; [exact (proj1 (creachF_base_ok dbg hp hpo hd HW HOK HI HV u RF))|].
  split; [exact (creachF_alphabet dbg hp hpo hd HW HOK HI HV u RF) | exact (creachF_sharp dbg hp hpo hd HW HOK HI HV u RF)].
Qed.
Check C05_reach3_sharp : forall dbg hp hpo hd u, HostWf hp hpo hd -> HostOK hp hpo hd -> IpDisp hd -> IpOKv hd ->
  CReach3 dbg hp hpo hd u -> base_ok u = true /\ alphabet_ok u /\ sharp u.
Print Assumptions C05_reach3_sharp.

Theorem C05_reachF_sub : forall dbg hp hpo hd u, CReachF dbg hp hpo hd u -> ReachableQ dbg hp hpo hd u.
Proof. exact creachF_Q. Qed.
Check C05_reachF_sub : forall dbg hp hpo hd u, CReachF dbg hp hpo hd u -> ReachableQ dbg hp hpo hd u.
Print Assumptions C05_reachF_sub.

Theorem C05_reachable_in_Q : forall dbg hp hpo hd u, Reachable dbg hp hpo hd u -> ReachableQ dbg hp hpo hd u.
Proof. exact reachable_Q. Qed.
Check C05_reachable_in_Q : forall dbg hp hpo hd u, Reachable dbg hp hpo hd u -> ReachableQ dbg hp hpo hd u.
Print Assumptions C05_reachable_in_Q.

(* the hypotheses are met and the new steps are taken (Proofs/C05_FinEx2.v): parse "http://h.x/a?q"; quirks set_host
   "o.x:81"; query_pairs_mut().append_pair("k'", "v w~"); join "../w v#f`" against the result (a base that comes straight
   out of mutator steps) gives "http://o.x:81/w%20v#f%60", with alphabet_ok and sharp *)
Example C05_reachF_inhabited : finF_example_stmt.
Proof. exact finF_example. Qed.

(* ================= 6. the host clause (last sentence of the property text) ================= *)
(* where the host text of a parse result comes from (Proofs/C05_HostParse.v), every parser arm, any input numbers:
   HostRes base u := hosti u = HI_None
                  \/ the stored host text ht u is the Display of a non-empty host that the host parser of the scheme
                     class of u returned (hp = Host::parse for special schemes, hpo = Host::parse_opaque otherwise)
                  \/ the base has a host, ht u = ht b and u has the scheme class of b.
   Base: well formed, host_text_ok, bk. *)
Theorem C05_parse_host_origin : forall dbg hp hpo hd ovr base input u, HostWf hp hpo hd ->
  match base with Some b => wf_b b = true /\ C06_Suffix.host_text_ok b /\ bk b | None => True end ->
  parse_url dbg hp hpo hd ovr base input = POk u -> HostRes hp hpo hd base u.
Proof. intros dbg hp hpo hd ovr base input u HW. exact (parse_url_host dbg hp hpo hd ovr HW base input u). Qed.
Check C05_parse_host_origin : forall dbg hp hpo hd ovr base input u, HostWf hp hpo hd ->
  match base with Some b => wf_b b = true /\ C06_Suffix.host_text_ok b /\ bk b | None => True end ->
  parse_url dbg hp hpo hd ovr base input = POk u -> HostRes hp hpo hd base u.
Print Assumptions C05_parse_host_origin.

(* HostSpQ hp hd Q (Proofs/C05_HostClause.v): every host other than the empty one that hp (Host::parse, the parser of
   special schemes) returns, and every address value, is displayed as a text that satisfies Q.
   HC Q u: if the scheme of u is special, what Url::host_str() returns satisfies Q.
   For EVERY record of CReachF (parse, join, gated steps of the 19 mutators, query_pairs_mut sessions): a special URL
   never gets its host from Host::parse_opaque, and the scheme class only goes from special to special. *)
Theorem C05_host_clause_reachF : forall dbg hp hpo hd Q u,
  HostSpQ hp hd Q -> HostWf hp hpo hd -> IpDisp hd -> HostOK hp hpo hd -> IpOKv hd ->
  CReachF dbg hp hpo hd u -> HC Q u.
Proof. intros dbg hp hpo hd Q u HQ HW HI HOK HV. exact (creachF_hc dbg hp hpo hd Q HQ HW HI HOK HV u). Qed.
Check C05_host_clause_reachF : forall dbg hp hpo hd Q u,
  HostSpQ hp hd Q -> HostWf hp hpo hd -> IpDisp hd -> HostOK hp hpo hd -> IpOKv hd ->
  CReachF dbg hp hpo hd u -> HC Q u.
Print Assumptions C05_host_clause_reachF.

(* along histories of gated steps and sessions from any start record with FInv and HC (GHistF) *)
Theorem C05_host_clause_history : forall dbg hp hpo hd Q u u',
  HostSpQ hp hd Q -> HostWf hp hpo hd -> IpDisp hd -> HostOK hp hpo hd -> IpOKv hd ->
  GHistF dbg hp hpo hd u u' -> FInv dbg u -> HC Q u -> FInv dbg u' /\ HC Q u'.
Proof. intros dbg hp hpo hd Q u u' HQ HW HI HOK HV. exact (hc_history dbg hp hpo hd Q HQ HW HI HOK HV u u'). Qed.
Check C05_host_clause_history : forall dbg hp hpo hd Q u u',
  HostSpQ hp hd Q -> HostWf hp hpo hd -> IpDisp hd -> HostOK hp hpo hd -> IpOKv hd ->
  GHistF dbg hp hpo hd u u' -> FInv dbg u -> HC Q u -> FInv dbg u' /\ HC Q u'.
Print Assumptions C05_host_clause_history.

(* the hypotheses are met (Proofs/C05_FinEx2.v): Q = "inside 0x21..0x7E" for the example host functions; parse
   "http://h.x/a?q" satisfies FInv and HC, quirks set_host "o.x:81" is a gated step, the result has host text "o.x" *)
Example C05_host_clause_inhabited : hc_example_stmt.
Proof. exact hc_example. Qed.

(* ---- linked with the host model (Model/Host.v), premise IdnaOK only (Proofs/C05_HostInst.v).
   host_text_clean s := s is a bracketed IPv6 literal, or every byte of s is ASCII, not an upper-case letter and not a
   forbidden domain code point of the Standard (forbidden host code points, C0 controls, '%', DEL).
   HostSpQ holds for the model: domains by C09's domain_form, IPv4 text is digits and dots. *)
Theorem C05_host_model_clean : forall idna, IdnaOK idna -> HostSpQ (host_parse idna) host_display host_text_clean.
Proof. exact model_HostSpQ. Qed.
Check C05_host_model_clean : forall idna, IdnaOK idna -> HostSpQ (host_parse idna) host_display host_text_clean.
Print Assumptions C05_host_model_clean.

(* the property text of C05 for every record of CReachF of the linked model: the invariant (component clauses, AS, byte
   alphabet, space-free host text), alphabet_ok, sharp, base_ok, and the host clause *)
Theorem C05_reachF_model : forall dbg idna, IdnaOK idna -> forall u,
  CReachF dbg (host_parse idna) host_parse_opaque host_display u ->
  (wfh u /\ components_clean dbg u) /\ alphabet_ok u /\ sharp u /\ base_ok u = true
  /\ (spb u = true -> forall s, host_str u = Some (Some s) -> host_text_clean s).
Proof.
  intros dbg idna OK u R. split; [exact (reachF_components_model idna OK dbg u R)|].
  split; [exact (reachF_alphabet_model idna OK dbg u R)|]. split; [exact (reachF_sharp_model idna OK dbg u R)|].
  split; [exact (proj1 (reachF_base_ok_model idna OK dbg u R)) | exact (reachF_host_clean_model idna OK dbg u R)].
Qed.
Check C05_reachF_model : forall dbg idna, IdnaOK idna -> forall u,
  CReachF dbg (host_parse idna) host_parse_opaque host_display u ->
  (wfh u /\ components_clean dbg u) /\ alphabet_ok u /\ sharp u /\ base_ok u = true
  /\ (spb u = true -> forall s, host_str u = Some (Some s) -> host_text_clean s).
Print Assumptions C05_reachF_model.

(* ================= 7. the backslash clause: special-scheme paths contain no '\' ================= *)
(* the hierarchical path states for a special scheme, in EVERY context (URL parser, Url::set_path, path_segments_mut)
   and for ANY input numbers, keep the text in front of the path and write no backslash: in the parser / set_path
   contexts '\' is a separator (written as '/'), in the path_segments_mut context SPECIAL_PATH_SEGMENT encodes it *)
Theorem C05_special_path_states : forall dbg ctx st hh s0 l s1 hh' rem, st_is_special st = true ->
  parse_path_start dbg ctx st hh s0 l = POk (s1, hh', rem) ->
  exists P, s1 = s0 ++ P /\ forallb nb P = true.
Proof. exact parse_path_start_nb. Qed.
Check C05_special_path_states : forall dbg ctx st hh s0 l s1 hh' rem, st_is_special st = true ->
  parse_path_start dbg ctx st hh s0 l = POk (s1, hh', rem) ->
  exists P, s1 = s0 ++ P /\ forallb nb P = true.
Print Assumptions C05_special_path_states.

(* BS u := special scheme -> every byte of the stored path slice is not '\'.  Every record parse_url returns, any input
   numbers, no hypothesis on the host functions; base: wf_b, AS, BS *)
Theorem C05_special_path_parse : forall dbg hp hpo hd ovr base input u,
  match base with Some b => wf_b b = true /\ AS b /\ BS b | None => True end ->
  parse_url dbg hp hpo hd ovr base input = POk u -> BS u.
Proof. exact parse_url_bs. Qed.
Check C05_special_path_parse : forall dbg hp hpo hd ovr base input u,
  match base with Some b => wf_b b = true /\ AS b /\ BS b | None => True end ->
  parse_url dbg hp hpo hd ovr base input = POk u -> BS u.
Print Assumptions C05_special_path_parse.

(* every record of CReachF with a special scheme is not cannot-be-a-base and its path() contains no '\' *)
Theorem C05_special_path_reachF : forall dbg hp hpo hd u, HostWf hp hpo hd -> HostOK hp hpo hd -> IpDisp hd -> IpOKv hd ->
  CReachF dbg hp hpo hd u -> spb u = true ->
  cannot_be_a_base u = Some false /\ forall p, path u = Some p -> ~ In 92 p.
Proof. intros dbg hp hpo hd u HW HOK HI HV. exact (creachF_special_path dbg hp hpo hd HW HOK HI HV u). Qed.
Check C05_special_path_reachF : forall dbg hp hpo hd u, HostWf hp hpo hd -> HostOK hp hpo hd -> IpDisp hd -> IpOKv hd ->
  CReachF dbg hp hpo hd u -> spb u = true ->
  cannot_be_a_base u = Some false /\ forall p, path u = Some p -> ~ In 92 p.
Print Assumptions C05_special_path_reachF.

Theorem C05_special_path_model : forall dbg idna, IdnaOK idna -> forall u,
  CReachF dbg (host_parse idna) host_parse_opaque host_display u -> spb u = true ->
  cannot_be_a_base u = Some false /\ forall p, path u = Some p -> ~ In 92 p.
Proof. intros dbg idna OK. exact (reachF_special_path_model idna OK dbg). Qed.
Check C05_special_path_model : forall dbg idna, IdnaOK idna -> forall u,
  CReachF dbg (host_parse idna) host_parse_opaque host_display u -> spb u = true ->
  cannot_be_a_base u = Some false /\ forall p, path u = Some p -> ~ In 92 p.
Print Assumptions C05_special_path_model.

(* non-vacuity (Proofs/C05_FinEx2.v): parse "http://h.x\a"; set_path("x\y"); path_segments_mut().push("c\d") is a history
   of CReachF and gives "http://h.x/x/y/c%5Cd" *)
Example C05_special_path_inhabited : bs_example_stmt.
Proof. exact bs_example. Qed.

(* ================= non-vacuity ================= *)
Definition ex_hp (s : list N) : result host := Ok (HDomain s).
Definition ex_hd (h : host) : list N := match h with HDomain d => d | _ => [] end.

(* "http://u s:p@h/a b<TAB>e-acute?c'd#e`f<LF><SP>"  ->  "http://u%20s:p@h/a%20b%C3%A9?c%27d#e%60f"
   "a:x y?q r#f g"  ->  "a:x y?q%20r#f%20g" with an opaque path (the space stays) *)
Example C05_nonvacuous :
  (exists u, parse_url false ex_hp ex_hp ex_hd None None
      [104;116;116;112;58;47;47;117;32;115;58;112;64;104;47;97;32;98;9;233;63;99;39;100;35;101;96;102;10;32] = POk u
    /\ ser u = [104;116;116;112;58;47;47;117;37;50;48;115;58;112;64;104;47;97;37;50;48;98;37;67;51;37;65;57;63;
                99;37;50;55;100;35;101;37;54;48;102])
  /\ (exists u, parse_url false ex_hp ex_hp ex_hd None None [97;58;120;32;121;63;113;32;114;35;102;32;103] = POk u
    /\ ser u = [97;58;120;32;121;63;113;37;50;48;114;35;102;37;50;48;103]
    /\ cannot_be_a_base u = Some true).
Proof. split; eexists; vm_compute; repeat split; reflexivity. Qed.

(* the hypotheses HostOK / IpOK are satisfiable: a host parser that accepts exactly the texts inside
   0x21..0x7E and prints them back (and prints nothing for IP values) *)
Definition okb (b : N) : bool := (33 <=? b) && (b <=? 126).
Definition ex_hp2 (s : list N) : result host := if forallb okb s then Ok (HDomain s) else Err IdnaError.

Example C05_hypotheses_inhabited :
  HostOK ex_hp2 ex_hp2 ex_hd /\ IpOK ex_hd
  /\ exists u, parse_url true ex_hp2 ex_hp2 ex_hd None None [104;116;116;112;58;47;47;104;47;32;120] = POk u
               /\ ser u = [104;116;116;112;58;47;47;104;47;37;50;48;120].
Proof.
  split; [|split].
  - intros h [->|[[s Hs]|[s Hs]]]; [constructor| |];
      unfold ex_hp2 in Hs; destruct (forallb okb s) eqn:E; try discriminate; inversion Hs; subst; cbn [ex_hd];
      rewrite forallb_forall in E; apply Forall_forall; intros x Hx; specialize (E x Hx); unfold okb, ok_byte in *; lia.
  - intros h Hh. destruct h; [destruct Hh | constructor | constructor].
  - eexists. vm_compute. split; reflexivity.
Qed.

(* the gated histories are inhabited: parse "a:b", set_path("x y") (opaque path, stays opaque),
   set_query(Some "q r"), set_fragment(Some "f`") - every gate holds, the result is "a:x y?q%20r#f%60" *)
Example C05_gated_history_inhabited :
  exists u0 u3, parse_url true ex_hp ex_hp ex_hd None None [97; 58; 98] = POk u0
    /\ opaque_start [97; 58; 98] = true
    /\ GHist true ex_hp ex_hp ex_hd u0 u3
    /\ ser u3 = [97; 58; 120; 32; 121; 63; 113; 37; 50; 48; 114; 35; 102; 37; 54; 48].
Proof.
  eexists. eexists. split; [vm_compute; reflexivity|]. split; [vm_compute; reflexivity|]. split.
  - eapply (GH_step true ex_hp ex_hp ex_hd _ (OSetPath [120; 32; 121])); [ | vm_compute; reflexivity | ].
    + cbn [step_gate]. split; [repeat constructor; unfold is_usv; lia|].
      split; [intros H; vm_compute in H; discriminate|]. split; [intros _; vm_compute; reflexivity|].
      vm_compute. reflexivity.
    + eapply (GH_step true ex_hp ex_hp ex_hd _ (OSetQuery (Some [113; 32; 114]))); [ | vm_compute; reflexivity | ].
      * cbn [step_gate str_arg_ok]. repeat constructor; unfold is_usv; lia.
      * eapply (GH_step true ex_hp ex_hp ex_hd _ (OSetFragment (Some [102; 96]))); [ | vm_compute; reflexivity | ].
        -- exact I.
        -- apply GH_refl.
  - vm_compute. reflexivity.
Qed.
