(* Properties/C05.v - serialization alphabet.  Only statements, closed by `exact` / short assembly.
   ok_byte b = 0x21 <= b <= 0x7E; ok_or_space b = 0x20 <= b <= 0x7E.
   Input text is a list of code points (N); NO range condition is put on it unless stated: whatever
   numbers are fed to the encoders, only '%', upper-case hex digits and unreserved ASCII come out. *)
From RU Require Import Base.Prelude Base.Utf8 Base.Utf8Facts Model.AsciiSet Gen.Tables Model.PercentEncoding
  Model.HostT Model.UrlRecord Model.Parser Model.Setters Model.WF
  Proofs.C14_Set Proofs.C14_Enc Proofs.C14_Views Proofs.ListN
  Proofs.C05_Enc Proofs.C05_Parser Proofs.C05_Setters Proofs.C05_History Proofs.C05_Sharp Proofs.C05_Frag Proofs.C05_Query
  Proofs.C06_WFI Proofs.C06_FragQuery Proofs.C06_HostNone Proofs.C06_Host Proofs.C06_Path Proofs.C06_Main
  Proofs.C05_Comp Proofs.C05_PathClean Proofs.C05_CompSteps Proofs.C05_CompHist.

(* ================= 1. encoder alphabet ================= *)

(* a member of the set, other than '%' and the upper-case hex digits, never appears in the output *)
Theorem C05_encoder_avoids : forall S bs c, bytes bs ->
  aset_contains S c = true -> c <> 37 -> is_hexu c = false -> ~ In c (encode S bs).
Proof. exact encode_avoids. Qed.
Check C05_encoder_avoids : forall S bs c, bytes bs ->
  aset_contains S c = true -> c <> 37 -> is_hexu c = false -> ~ In c (encode S bs).
Print Assumptions C05_encoder_avoids.

(* a set covering 0x00-0x20 and 0x7F yields 0x21..0x7E only; covering 0x00-0x1F and 0x7F yields 0x20..0x7E *)
Theorem C05_encoder_range : forall S bs, bytes bs ->
  ((forall b, b < 33 \/ b = 127 -> aset_contains S b = true) -> Forall ok_byte (encode S bs))
  /\ ((forall b, b < 32 \/ b = 127 -> aset_contains S b = true) -> Forall ok_or_space (encode S bs)).
Proof. intros S bs H. split; [exact (encode_ok S bs H) | exact (encode_ok_space S bs H)]. Qed.
Check C05_encoder_range : forall S bs, bytes bs ->
  ((forall b, b < 33 \/ b = 127 -> aset_contains S b = true) -> Forall ok_byte (encode S bs))
  /\ ((forall b, b < 32 \/ b = 127 -> aset_contains S b = true) -> Forall ok_or_space (encode S bs)).
Print Assumptions C05_encoder_range.

(* the same for what the iterator really writes, for ANY list of numbers (no `bytes` condition) *)
Theorem C05_display_alphabet : forall S xs,
  (forall c, aset_contains S c = true -> c <> 37 -> is_hexu c = false -> ~ In c (pe_display S xs))
  /\ ((forall b, b < 33 \/ b = 127 -> aset_contains S b = true) -> Forall ok_byte (pe_display S xs))
  /\ ((forall b, b < 32 \/ b = 127 -> aset_contains S b = true) -> Forall ok_or_space (pe_display S xs)).
Proof.
  intros S xs. split; [|split].
  - intros c. exact (pe_display_avoids S xs c).
  - exact (pe_display_ok S xs).
  - exact (pe_display_ok_space S xs).
Qed.
Check C05_display_alphabet : forall S xs,
  (forall c, aset_contains S c = true -> c <> 37 -> is_hexu c = false -> ~ In c (pe_display S xs))
  /\ ((forall b, b < 33 \/ b = 127 -> aset_contains S b = true) -> Forall ok_byte (pe_display S xs))
  /\ ((forall b, b < 32 \/ b = 127 -> aset_contains S b = true) -> Forall ok_or_space (pe_display S xs)).
Print Assumptions C05_display_alphabet.

(* adds_clean set D (Proofs/C05_Parser.v): for every serialization prefix and every text (ANY code
   points), push_encoded set ser text = ser ++ added with `added` inside 0x21..0x7E and free of D *)
(* / : ; = @ [ \ ] ^ | ? # space dquote < > backtick { } *)
Theorem C05_userinfo_enc :
  adds_clean T_USERINFO [47; 58; 59; 61; 64; 91; 92; 93; 94; 124; 63; 35; 32; 34; 60; 62; 96; 123; 125].
Proof. apply adds_clean_of; [apply T_USERINFO_facts | apply T_USERINFO_facts | reflexivity]. Qed.
Check C05_userinfo_enc :
  adds_clean T_USERINFO [47; 58; 59; 61; 64; 91; 92; 93; 94; 124; 63; 35; 32; 34; 60; 62; 96; 123; 125].
Print Assumptions C05_userinfo_enc.

(* PATH: ? # space dquote < > backtick { } ; PATH_SEGMENT additionally / ; SPECIAL_PATH_SEGMENT additionally \ ;
   both segment sets contain '%', so an input '%' is itself escaped and decoding gives the text back *)
Theorem C05_path_enc :
  adds_clean T_PATH [63; 35; 32; 34; 60; 62; 96; 123; 125]
  /\ adds_clean T_PATH_SEGMENT [47; 63; 35; 32; 34; 60; 62; 96; 123; 125]
  /\ adds_clean T_SPECIAL_PATH_SEGMENT [92; 47; 63; 35; 32; 34; 60; 62; 96; 123; 125]
  /\ aset_contains T_PATH_SEGMENT 37 = true /\ aset_contains T_SPECIAL_PATH_SEGMENT 37 = true
  /\ (forall text, usv_list text ->
        decode (pe_display T_PATH_SEGMENT (utf8_encode text)) = utf8_encode text
        /\ decode (pe_display T_SPECIAL_PATH_SEGMENT (utf8_encode text)) = utf8_encode text).
Proof. exact path_enc_facts. Qed.
Print Assumptions C05_path_enc.

(* QUERY: # space dquote < > ; SPECIAL_QUERY additionally the apostrophe *)
Theorem C05_query_enc :
  adds_clean T_QUERY [35; 32; 34; 60; 62] /\ adds_clean T_SPECIAL_QUERY [39; 35; 32; 34; 60; 62].
Proof.
  split; apply adds_clean_of;
    [apply T_QUERY_facts | apply T_QUERY_facts | reflexivity
     | apply T_SPECIAL_QUERY_facts | apply T_SPECIAL_QUERY_facts | reflexivity].
Qed.
Check C05_query_enc :
  adds_clean T_QUERY [35; 32; 34; 60; 62] /\ adds_clean T_SPECIAL_QUERY [39; 35; 32; 34; 60; 62].
Print Assumptions C05_query_enc.

(* FRAGMENT: space dquote < > backtick *)
Theorem C05_fragment_enc : adds_clean T_FRAGMENT [32; 34; 60; 62; 96].
Proof. apply adds_clean_of; [apply T_FRAGMENT_facts | apply T_FRAGMENT_facts | reflexivity]. Qed.
Check C05_fragment_enc : adds_clean T_FRAGMENT [32; 34; 60; 62; 96].
Print Assumptions C05_fragment_enc.

(* opaque path (CONTROLS): 0x20..0x7E; and for text (code points of a str) the output is that of the C14 map *)
Theorem C05_opaque_enc :
  (forall ser text, exists added,
      push_encoded T_CONTROLS ser text = ser ++ added /\ Forall ok_or_space added)
  /\ (forall set text, usv_list text ->
        pe_display set (utf8_encode text) = encode set (utf8_encode text) /\ ascii (encode set (utf8_encode text))).
Proof.
  split.
  - intros ser text. eexists. split; [reflexivity|]. apply pe_display_ok_space, T_CONTROLS_c0.
  - intros set text Hu. split; [exact (push_text_is_encode set text Hu)|].
    apply encode_ascii, utf8_encode_bytes. exact Hu.
Qed.
Print Assumptions C05_opaque_enc.

(* ================= 2. the whole parser ================= *)

(* Hypothesis on the three host functions (Section variables of the parser model):
   HostOK hp hpo hd := every host value h that is HDomain [] or a result Ok h of hp or of hpo
   is displayed by hd inside 0x21..0x7E. *)
Theorem C05_parse : forall dbg hp hpo hd ovr base input u,
  HostOK hp hpo hd ->
  match base with Some b => Forall ok_or_space (ser b) | None => True end ->
  parse_url dbg hp hpo hd ovr base input = POk u ->
  Forall ok_or_space (ser u).
Proof.
  intros dbg hp hpo hd ovr base input u HOK Hb Hp.
  exact (parse_url_okl ok_or_space ok_byte_or_space dbg hp hpo hd ovr HOK base input u
           (fun _ => ok_or_space_32) Hp Hb).
Qed.
Check C05_parse : forall dbg hp hpo hd ovr base input u,
  HostOK hp hpo hd ->
  match base with Some b => Forall ok_or_space (ser b) | None => True end ->
  parse_url dbg hp hpo hd ovr base input = POk u ->
  Forall ok_or_space (ser u).
Print Assumptions C05_parse.

(* the sharper form: U+0020 only with an opaque path.  `sharp u` = every byte in 0x21..0x7E, or
   (every byte in 0x20..0x7E, the bytes up to and including the ':' in 0x21..0x7E, the scheme not
   special, and cannot_be_a_base u = Some true).  Preserved from the base to the result. *)
Theorem C05_bytes : forall dbg hp hpo hd ovr base input u,
  HostOK hp hpo hd -> usv_list input ->
  match base with Some b => sharp b | None => True end ->
  parse_url dbg hp hpo hd ovr base input = POk u ->
  sharp u.
Proof. intros dbg hp hpo hd ovr base input u HOK. exact (parse_url_sharp dbg hp hpo hd ovr HOK base input u). Qed.
Check C05_bytes : forall dbg hp hpo hd ovr base input u,
  HostOK hp hpo hd -> usv_list input ->
  match base with Some b => sharp b | None => True end ->
  parse_url dbg hp hpo hd ovr base input = POk u ->
  sharp u.
Print Assumptions C05_bytes.

(* a component clause for the STORED slice: the fragment of every parse result (no hypothesis on the
   host functions, on the base - its fragment is never kept - or on the input) and of every
   set_fragment(Some _) result is inside 0x21..0x7E and free of space, dquote, '<', '>', backtick *)
Theorem C05_fragment : forall dbg dbg' hp hpo hd ovr base input u f,
  parse_url dbg hp hpo hd ovr base input = POk u -> fragment dbg' u = Some (Some f) ->
  Forall ok_byte f /\ forall d, In d [32; 34; 60; 62; 96] -> ~ In d f.
Proof.
  intros dbg dbg' hp hpo hd ovr base input u f Hp Hf.
  exact (frag_oku_fragment dbg' u f (parse_url_frag dbg hp hpo hd ovr base input u Hp) Hf).
Qed.
Check C05_fragment : forall dbg dbg' hp hpo hd ovr base input u f,
  parse_url dbg hp hpo hd ovr base input = POk u -> fragment dbg' u = Some (Some f) ->
  Forall ok_byte f /\ forall d, In d [32; 34; 60; 62; 96] -> ~ In d f.
Print Assumptions C05_fragment.

Theorem C05_set_fragment : forall dbg dbg' u input u' f,
  set_fragment dbg u (Some input) = Some u' -> fragment dbg' u' = Some (Some f) ->
  Forall ok_byte f /\ forall d, In d [32; 34; 60; 62; 96] -> ~ In d f.
Proof.
  intros dbg dbg' u input u' f Hs Hf.
  exact (frag_oku_fragment dbg' u' f (set_fragment_frag dbg u input u' Hs) Hf).
Qed.
Check C05_set_fragment : forall dbg dbg' u input u' f,
  set_fragment dbg u (Some input) = Some u' -> fragment dbg' u' = Some (Some f) ->
  Forall ok_byte f /\ forall d, In d [32; 34; 60; 62; 96] -> ~ In d f.
Print Assumptions C05_set_fragment.

(* the same for the stored query.  query_oku u (Proofs/C05_Query.v): if query_start u = Some q then
   ser u = X ++ "?" ++ tq ++ rest with q = |X|, tq inside 0x21..0x7E and free of '#', space, dquote,
   '<', '>', and rest = [] (no fragment) or fragment_start u = |X| + 1 + |tq|.  A base must have that
   shape (its query is kept by an empty or fragment-only reference); the result has it again, so the
   statement chains along joins.  Any encoding override, any input, no hypothesis on the host functions. *)
Theorem C05_query : forall dbg dbg' hp hpo hd ovr base input u,
  match base with Some b => query_oku b | None => True end ->
  parse_url dbg hp hpo hd ovr base input = POk u ->
  query_oku u
  /\ forall q, query dbg' u = Some (Some q) -> Forall ok_byte q /\ forall d, In d [35; 32; 34; 60; 62] -> ~ In d q.
Proof.
  intros dbg dbg' hp hpo hd ovr base input u Hb Hp.
  pose proof (parse_url_query dbg hp hpo hd ovr base input u Hb Hp) as H.
  split; [exact H | intros q Hq; exact (query_oku_query dbg' u q H Hq)].
Qed.
Check C05_query : forall dbg dbg' hp hpo hd ovr base input u,
  match base with Some b => query_oku b | None => True end ->
  parse_url dbg hp hpo hd ovr base input = POk u ->
  query_oku u
  /\ forall q, query dbg' u = Some (Some q) -> Forall ok_byte q /\ forall d, In d [35; 32; 34; 60; 62] -> ~ In d q.
Print Assumptions C05_query.

(* ================= 3. histories ================= *)
(* Reachable dbg hp hpo hd : parse without base, parse against a reachable base (any encoding
   override), and any of 19 mutators (9 Url setters, path_segments_mut sessions, 9 quirks setters) with
   arbitrary arguments applied to a reachable Url.  IpOK hd : IPv4/IPv6 values print inside 0x21..0x7E. *)
Theorem C05_history : forall dbg hp hpo hd u,
  HostOK hp hpo hd -> IpOK hd ->
  Reachable dbg hp hpo hd u -> Forall ok_or_space (ser u).
Proof.
  intros dbg hp hpo hd u HOK HIP Hr.
  exact (reachable_okl dbg hp hpo hd ok_or_space ok_byte_or_space ok_or_space_32 HOK HIP u Hr).
Qed.
Check C05_history : forall dbg hp hpo hd u,
  HostOK hp hpo hd -> IpOK hd ->
  Reachable dbg hp hpo hd u -> Forall ok_or_space (ser u).
Print Assumptions C05_history.

(* ================= 4. the component clauses along histories ================= *)
(* The two statements below are for EVERY reachable Url (Reachable contains every mutator with arbitrary
   arguments, hence also the records the known defects F-C02-2/-3/-4/-8, F-C03-5 produce).  On the pinned
   code both were FALSE (finding F-C06-6, found by this proof attempt and confirmed on the crate:
   Url::parse("a:b") then set_path("<TAB>/ y") gave "a:/ y" - not cannot-be-a-base, path "/ y").  The code
   was repaired (0cfc9d8: set_path tests for the leading '/' on the TAB / LF / CR-free input) and the
   model follows it; the former witness now stays an opaque path (C05_F_C06_6_fixed).  With the repair
   no counter-witness is known (a search over histories on the repaired crate found none); the statements
   are kept as stated, NOT proved: what is proved is the gated form below. *)
Definition C05_history_sharp_statement : Prop :=
  forall dbg hp hpo hd u, HostOK hp hpo hd -> IpOK hd -> Reachable dbg hp hpo hd u -> sharp u.

Definition C05_components_statement : Prop :=
  forall dbg hp hpo hd u, HostOK hp hpo hd -> IpOK hd -> Reachable dbg hp hpo hd u ->
  (forall un, username dbg u = Some un ->
     forall d, In d [47; 58; 59; 61; 64; 91; 92; 93; 94; 124; 63; 35; 32; 34; 60; 62; 96; 123; 125] -> ~ In d un)
  /\ (forall pw, password dbg u = Some (Some pw) ->
     forall d, In d [47; 58; 59; 61; 64; 91; 92; 93; 94; 124; 63; 35; 32; 34; 60; 62; 96; 123; 125] -> ~ In d pw)
  /\ (cannot_be_a_base u = Some false -> forall p, path u = Some p ->
     forall d, In d [63; 35; 32; 34; 60; 62; 96; 123; 125] -> ~ In d p)
  /\ (forall q, query dbg u = Some (Some q) -> forall d, In d [35; 32; 34; 60; 62] -> ~ In d q)
  /\ (forall f, fragment dbg u = Some (Some f) -> forall d, In d [32; 34; 60; 62; 96] -> ~ In d f).

(* regression for F-C06-6: parse "a:b", set_path [TAB; '/'; ' '; 'y'] is reachable and gives "a:%2F y":
   well-formed, still cannot-be-a-base, and `sharp` (the space is inside an opaque path) *)
Theorem C05_F_C06_6_fixed : forall dbg,
  Reachable dbg no_hp no_hp no_hd cw_end
  /\ ser cw_end = [97; 58; 37; 50; 70; 32; 121]
  /\ wf_b cw_end = true /\ cannot_be_a_base cw_end = Some true /\ sharp cw_end.
Proof.
  intros dbg. destruct cw_fixed as (_ & W & _ & C & _ & S).
  split; [apply cw_reachable|]. split; [reflexivity|]. split; [exact W|]. split; [exact C | exact S].
Qed.
Check C05_F_C06_6_fixed : forall dbg,
  Reachable dbg no_hp no_hp no_hd cw_end
  /\ ser cw_end = [97; 58; 37; 50; 70; 32; 121]
  /\ wf_b cw_end = true /\ cannot_be_a_base cw_end = Some true /\ sharp cw_end.
Print Assumptions C05_F_C06_6_fixed.

(* What IS proved.  The hierarchical path states (parse_path_start and everything below it: segments,
   dot segments, drive letters, the file fix-up) in EVERY context - URL parser, Url::set_path,
   path_segments_mut - and for ANY input numbers keep the text in front of the path and write no byte of
   ? # space dquote < > backtick { } *)
Theorem C05_path_states : forall dbg ctx st hh s0 l s1 hh' rem,
  parse_path_start dbg ctx st hh s0 l = POk (s1, hh', rem) ->
  exists P, s1 = s0 ++ P /\ forall d, In d [63; 35; 32; 34; 60; 62; 96; 123; 125] -> ~ In d P.
Proof.
  intros dbg ctx st hh s0 l s1 hh' rem H.
  destruct (parse_path_start_clean dbg ctx st hh s0 l s1 hh' rem H) as (P & E & HP).
  exists P. split; [exact E | exact (pq_free P HP)].
Qed.
Check C05_path_states : forall dbg ctx st hh s0 l s1 hh' rem,
  parse_path_start dbg ctx st hh s0 l = POk (s1, hh', rem) ->
  exists P, s1 = s0 ++ P /\ forall d, In d [63; 35; 32; 34; 60; 62; 96; 123; 125] -> ~ In d P.
Print Assumptions C05_path_states.

(* The clauses as an invariant.  components_clean dbg u = the five clauses of the statement above for the
   record u.  CInv dbg u = wfh u (C06's invariant: wf_b + host_text_ok) /\ comp_ok dbg u, where comp_ok is
   components_clean with the path clause in the form "a stored path that starts with '/' is free of
   ? # space dquote < > backtick { }" (on a well-formed record this gives the clause of the text:
   a path that is not opaque is empty or starts with '/').
   step_gate hd u o u' (Proofs/C05_CompHist.v) excludes, by computable conditions on the two records and
   the argument, exactly the known classes: set_host(None) with an empty path or a "//"-led path
   (F-C06-5, F-C02-2), host setters on a marker URL or an empty new host over a stored port (F-C03-5,
   F-C02-4), set_path with '?' / '#' into an opaque path (F-C02-3), a "//"-led result without marker or a
   marker in front of a path that is not "//"-led (F-C02-8, F-C03-5); arguments are &str (usv_list) and
   u16.  set_path on an opaque path needs no further exclusion (F-C06-6 is repaired: the path stays
   opaque, C06_get_path_opaque).  NOT covered (gate False):
   path_segments_mut sessions and the quirks setters set_host / set_hostname / set_port / set_pathname. *)
Theorem C05_components_step : forall dbg hp hpo hd u o u',
  CInv dbg u -> step_gate hd u o u' -> apply_op dbg hp hpo hd u o = Some u' ->
  CInv dbg u' /\ components_clean dbg u'.
Proof.
  intros dbg hp hpo hd u o u' K G H. pose proof (cinv_step dbg hp hpo hd u o u' K G H) as K'.
  split; [exact K'|]. destruct K' as [[W _] C]. exact (comp_ok_components dbg u' W C).
Qed.
Check C05_components_step : forall dbg hp hpo hd u o u',
  CInv dbg u -> step_gate hd u o u' -> apply_op dbg hp hpo hd u o = Some u' ->
  CInv dbg u' /\ components_clean dbg u'.
Print Assumptions C05_components_step.

(* along every history of gated steps (GHist: reflexive-transitive closure of gated apply_op steps) *)
Theorem C05_components_history : forall dbg hp hpo hd u u',
  GHist dbg hp hpo hd u u' -> CInv dbg u -> wfh u' /\ components_clean dbg u'.
Proof. exact components_history. Qed.
Check C05_components_history : forall dbg hp hpo hd u u',
  GHist dbg hp hpo hd u u' -> CInv dbg u -> wfh u' /\ components_clean dbg u'.
Print Assumptions C05_components_history.

(* a start class with a computable recogniser: every parse result (no base, any encoding override, no
   hypothesis on the host functions) of an input  scheme ":" rest  with a non-special scheme and rest not
   starting with '/' (C02's opaque-input class) satisfies CInv *)
Theorem C05_components_parse_opaque : forall dbg hp hpo hd ovr input u,
  usv_list input -> opaque_start input = true ->
  parse_url dbg hp hpo hd ovr None input = POk u -> CInv dbg u /\ cannot_be_a_base u = Some true.
Proof. exact parse_opaque_cinv. Qed.
Check C05_components_parse_opaque : forall dbg hp hpo hd ovr input u,
  usv_list input -> opaque_start input = true ->
  parse_url dbg hp hpo hd ovr None input = POk u -> CInv dbg u /\ cannot_be_a_base u = Some true.
Print Assumptions C05_components_parse_opaque.

(* what is still open: CInv for parse results outside the opaque-input class (needs C02's L1 = wf_b of
   every parse result, and the userinfo / path clauses of the parser's own writes and of the slices copied
   from a base; C05_path_states is the path half of the former), the steps with gate False, and the host
   clause *)
Definition C05_components_parse_statement : Prop :=
  forall dbg hp hpo hd ovr base input u, HostOK hp hpo hd ->
    match base with Some b => CInv dbg b | None => True end ->
    parse_url dbg hp hpo hd ovr base input = POk u -> CInv dbg u.

(* ================= non-vacuity ================= *)
Definition ex_hp (s : list N) : result host := Ok (HDomain s).
Definition ex_hd (h : host) : list N := match h with HDomain d => d | _ => [] end.

(* "http://u s:p@h/a b<TAB>e-acute?c'd#e`f<LF><SP>"  ->  "http://u%20s:p@h/a%20b%C3%A9?c%27d#e%60f"
   "a:x y?q r#f g"  ->  "a:x y?q%20r#f%20g" with an opaque path (the space stays) *)
Example C05_nonvacuous :
  (exists u, parse_url false ex_hp ex_hp ex_hd None None
      [104;116;116;112;58;47;47;117;32;115;58;112;64;104;47;97;32;98;9;233;63;99;39;100;35;101;96;102;10;32] = POk u
    /\ ser u = [104;116;116;112;58;47;47;117;37;50;48;115;58;112;64;104;47;97;37;50;48;98;37;67;51;37;65;57;63;
                99;37;50;55;100;35;101;37;54;48;102])
  /\ (exists u, parse_url false ex_hp ex_hp ex_hd None None [97;58;120;32;121;63;113;32;114;35;102;32;103] = POk u
    /\ ser u = [97;58;120;32;121;63;113;37;50;48;114;35;102;37;50;48;103]
    /\ cannot_be_a_base u = Some true).
Proof. split; eexists; vm_compute; repeat split; reflexivity. Qed.

(* the hypotheses HostOK / IpOK are satisfiable: a host parser that accepts exactly the texts inside
   0x21..0x7E and prints them back (and prints nothing for IP values) *)
Definition okb (b : N) : bool := (33 <=? b) && (b <=? 126).
Definition ex_hp2 (s : list N) : result host := if forallb okb s then Ok (HDomain s) else Err IdnaError.

Example C05_hypotheses_inhabited :
  HostOK ex_hp2 ex_hp2 ex_hd /\ IpOK ex_hd
  /\ exists u, parse_url true ex_hp2 ex_hp2 ex_hd None None [104;116;116;112;58;47;47;104;47;32;120] = POk u
               /\ ser u = [104;116;116;112;58;47;47;104;47;37;50;48;120].
Proof.
  split; [|split].
  - intros h [->|[[s Hs]|[s Hs]]]; [constructor| |];
      unfold ex_hp2 in Hs; destruct (forallb okb s) eqn:E; try discriminate; inversion Hs; subst; cbn [ex_hd];
      rewrite forallb_forall in E; apply Forall_forall; intros x Hx; specialize (E x Hx); unfold okb, ok_byte in *; lia.
  - intros h Hh. destruct h; [destruct Hh | constructor | constructor].
  - eexists. vm_compute. split; reflexivity.
Qed.

(* the gated histories are inhabited: parse "a:b", set_path("x y") (opaque path, stays opaque),
   set_query(Some "q r"), set_fragment(Some "f`") - every gate holds, the result is "a:x y?q%20r#f%60" *)
Example C05_gated_history_inhabited :
  exists u0 u3, parse_url true ex_hp ex_hp ex_hd None None [97; 58; 98] = POk u0
    /\ opaque_start [97; 58; 98] = true
    /\ GHist true ex_hp ex_hp ex_hd u0 u3
    /\ ser u3 = [97; 58; 120; 32; 121; 63; 113; 37; 50; 48; 114; 35; 102; 37; 54; 48].
Proof.
  eexists. eexists. split; [vm_compute; reflexivity|]. split; [vm_compute; reflexivity|]. split.
  - eapply (GH_step true ex_hp ex_hp ex_hd _ (OSetPath [120; 32; 121])); [ | vm_compute; reflexivity | ].
    + cbn [step_gate]. split; [repeat constructor; unfold is_usv; lia|].
      split; [intros H; vm_compute in H; discriminate|]. split; [intros _; vm_compute; reflexivity|].
      vm_compute. reflexivity.
    + eapply (GH_step true ex_hp ex_hp ex_hd _ (OSetQuery (Some [113; 32; 114]))); [ | vm_compute; reflexivity | ].
      * cbn [step_gate str_arg_ok]. repeat constructor; unfold is_usv; lia.
      * eapply (GH_step true ex_hp ex_hp ex_hd _ (OSetFragment (Some [102; 96]))); [ | vm_compute; reflexivity | ].
        -- exact I.
        -- apply GH_refl.
  - vm_compute. reflexivity.
Qed.
