(* Properties/C12.v - ToUnicode / ToASCII mutually inverse on accepted names.  Only statements,
   closed by `exact`.  The full statement C12_statement (Proofs/Idna_Hyp.v; relative to AdapterOK and the Punycode
   round trip PunyRT, outside Known_C12) is REFUTED as written (C12_statement_refuted: F-C10-1, a label whose Punycode
   form is longer than 2000); the corrected statement C12_statement2 (Proofs/Idna_C10b_Stmt.v, also outside
   Known_C10_long) is not proved - and is itself FALSE for an abstract adapter (C12_statement2_refuted: its adapter premises
   miss MapPrefix); the statement with the premises AdapterUSV and MapPrefix added is C12_statement3
   (Proofs/Idna_C12b_Stmt3.v), of which C12_ascii_form proves: the ASCII form is a fixed point of ToASCII and ToUnicode
   reports no error for it, and C12_u_of_a proves clause u_of_a IN FULL (ToUnicode of the ASCII form = ToUnicode of the
   name, same text, no error; no exclusion of Known_C12 / Known_C11 needed).  C12_statement3 as a whole is FALSE for an
   abstract adapter (C12_statement3_refuted: its premises do not make a text accepted by normalize_validate a fixed point
   of map_normalize, so clause a_of_u fails); C12_statement4 (Proofs/Idna_C12c_Stmt4.v) adds that premise, NvMapFix
   (sampled as ok_nv_mapfix), and is stated; C12_round_partial proves its clauses u_of_a, a_of_u and u_idem on the class
   of names without an accepted xn-- input label (PunyIn d = false).  C12_statement4 still misses one adapter premise for
   names WITH an accepted xn-- input label (NvNoGrow: normalize_validate never returns its argument followed by more text;
   after_punycode_decode compares the two texts with a zip that stops at the shorter); C12_statement5
   (Proofs/Idna_C12d_Stmt5.v) adds it (sampled as nvnogrow) and is PROVED IN FULL: C12_5 - all four clauses, every accepted
   byte string outside Known_C12 and Known_C10_long, every display policy; C12_all is the same without the exclusion of
   Known_C11.  The Punycode fact behind it is C12_enc_dec_internal; see theorem_notes in tools/props_d/C12.py. *)
From RU Require Import Base.Prelude Base.Utf8 Base.Utf8Facts Base.U32_c13 Gen.Tables Model.Punycode Model.Uts46
  Proofs.Idna_Sim Proofs.Idna_Api Proofs.Idna_Known Proofs.Idna_Hyp Proofs.Idna_C12 Proofs.Idna_Tables Proofs.Idna_PunyRT
  Proofs.Idna_C10b_Long Proofs.Idna_C10b_Stmt Proofs.Idna_C10b_AsciiInner Proofs.Idna_C10b_AsciiWalk Proofs.Idna_C12_Ascii
  Proofs.Idna_C10_Inner Proofs.Idna_WalkEnc Proofs.Idna_C10c_Drun Proofs.Idna_C10c_Example Proofs.Idna_C10c_Refute Proofs.Idna_C12b_Stmt3
  Proofs.Idna_C10_Deny Proofs.Idna_WalkFun Proofs.Idna_C10d_CaseLoop Proofs.Idna_C12c_Virtual Proofs.Idna_C12c_UofA Proofs.Idna_C12c_Stmt4 Proofs.Idna_C10c_Drun Proofs.Idna_C12c_ULabel Proofs.Idna_C12c_Round
  Proofs.Idna_C12d_EncDec Proofs.Idna_C12d_Round Proofs.Idna_C12d_UI Proofs.Idna_C12d_Stmt5.

(* the four clauses on names of the fastest tier (lower-case letters and dots), every adapter *)
Theorem C12_fast_partial : forall A cfg d deny hy p, bytes d -> fast_tier d d = None ->
  let a := d in let u := ui_text (to_unicode A cfg d deny hy) in
  to_ascii A cfg d deny hy DIgnore = Ok (true, a) /\
  to_unicode A cfg a deny hy = UI true u false /\
  to_ascii A cfg (utf8_encode u) deny hy DIgnore = Ok (true, a) /\
  to_unicode A cfg (utf8_encode u) deny hy = UI true u false /\
  to_ascii A cfg (utf8_encode (ui_text (to_user_interface A cfg d deny hy p))) deny hy DIgnore = Ok (true, a).
Proof. exact c12_fast. Qed.
Check C12_fast_partial : forall A cfg d deny hy p, bytes d -> fast_tier d d = None ->
  let a := d in let u := ui_text (to_unicode A cfg d deny hy) in
  to_ascii A cfg d deny hy DIgnore = Ok (true, a) /\
  to_unicode A cfg a deny hy = UI true u false /\
  to_ascii A cfg (utf8_encode u) deny hy DIgnore = Ok (true, a) /\
  to_unicode A cfg (utf8_encode u) deny hy = UI true u false /\
  to_ascii A cfg (utf8_encode (ui_text (to_user_interface A cfg d deny hy p))) deny hy DIgnore = Ok (true, a).
Print Assumptions C12_fast_partial.

(* all four clauses (u_of_a, a_of_u, u_idem, ui) on the adapter-free class AN d = every label of d is ASCII and does not
   start with xn-- (any case): EVERY adapter, every deny list the API can build, every hyphen mode, every display
   policy, debug assertions on or off.  There ToASCII, ToUnicode and to_user_interface all return the ASCII
   lower-casing of the name *)
Theorem C12_an : forall A cfg d deny hy b a, AN d -> valid_deny deny ->
  to_ascii A cfg d deny hy DIgnore = Ok (b, a) ->
  let u := ui_text (to_unicode A cfg d deny hy) in
  a = map to_lower d /\ u = a /\ ui_err (to_unicode A cfg d deny hy) = false /\
  (ui_text (to_unicode A cfg a deny hy) = u /\ ui_err (to_unicode A cfg a deny hy) = false) /\
  (exists b', to_ascii A cfg (utf8_encode u) deny hy DIgnore = Ok (b', a)) /\
  (ui_text (to_unicode A cfg (utf8_encode u) deny hy) = u /\ ui_err (to_unicode A cfg (utf8_encode u) deny hy) = false) /\
  (forall p, exists b', to_ascii A cfg (utf8_encode (ui_text (to_user_interface A cfg d deny hy p))) deny hy DIgnore = Ok (b', a)).
Proof. exact c12_an. Qed.
Check C12_an : forall A cfg d deny hy b a, AN d -> valid_deny deny ->
  to_ascii A cfg d deny hy DIgnore = Ok (b, a) ->
  let u := ui_text (to_unicode A cfg d deny hy) in
  a = map to_lower d /\ u = a /\ ui_err (to_unicode A cfg d deny hy) = false /\
  (ui_text (to_unicode A cfg a deny hy) = u /\ ui_err (to_unicode A cfg a deny hy) = false) /\
  (exists b', to_ascii A cfg (utf8_encode u) deny hy DIgnore = Ok (b', a)) /\
  (ui_text (to_unicode A cfg (utf8_encode u) deny hy) = u /\ ui_err (to_unicode A cfg (utf8_encode u) deny hy) = false) /\
  (forall p, exists b', to_ascii A cfg (utf8_encode (ui_text (to_user_interface A cfg d deny hy p))) deny hy DIgnore = Ok (b', a)).
Print Assumptions C12_an.

Example C12_an_premises_hold :
  AN [65; 45; 98; 46; 88; 110; 45; 99; 46] /\ valid_deny DENY_URL /\
  to_ascii toy true [65; 45; 98; 46; 88; 110; 45; 99; 46] DENY_URL HCheck DIgnore = Ok (false, [97; 45; 98; 46; 120; 110; 45; 99; 46]) /\
  to_unicode toy true [65; 45; 98; 46; 88; 110; 45; 99; 46] DENY_URL HCheck = UI false [97; 45; 98; 46; 120; 110; 45; 99; 46] false.
Proof. exact c12_an_premises_hold. Qed.

(* whenever ToASCII accepts, ToUnicode reports no error - or it returned Passthrough-with-errors
   (F-C11-2, only without debug assertions); every adapter *)
Theorem C12_accepted_no_error : forall A cfg d deny hy b a bu t e, Redisc A cfg deny ->
  to_ascii A cfg d deny hy DIgnore = Ok (b, a) ->
  to_unicode A cfg d deny hy = UI bu t e -> e = false.
Proof. exact c12_accepted_no_error. Qed.
Check C12_accepted_no_error : forall A cfg d deny hy b a bu t e, Redisc A cfg deny ->
  to_ascii A cfg d deny hy DIgnore = Ok (b, a) ->
  to_unicode A cfg d deny hy = UI bu t e -> e = false.
Print Assumptions C12_accepted_no_error.

(* the ASCII form of an accepted name, every input (non-ASCII and xn-- labels included, INSIDE Known_C12 / Known_C11 too),
   outside Known_C10_long (F-C10-1): ToASCII returns it unchanged (borrowed), ToUnicode reports no error for it - the
   "no error" half of clause u_of_a - nor for the name itself.  Premises: the sampled adapter facts of C10_idem3 *)
Theorem C12_ascii_form : forall A cfg, AdapterOK A -> AdapterUSV A -> NvNoTrunc A -> NvIdem A -> AsciiNoMark A -> MapPrefix A ->
  forall d deny hy b a, bytes d -> valid_deny deny ->
  to_ascii A cfg d deny hy DIgnore = Ok (b, a) -> Known_C10_long a = false ->
  to_ascii A cfg a deny hy DIgnore = Ok (true, a) /\
  ui_err (to_unicode A cfg a deny hy) = false /\ ui_err (to_unicode A cfg d deny hy) = false.
Proof. exact c12_ascii_form. Qed.
Check C12_ascii_form : forall A cfg, AdapterOK A -> AdapterUSV A -> NvNoTrunc A -> NvIdem A -> AsciiNoMark A -> MapPrefix A ->
  forall d deny hy b a, bytes d -> valid_deny deny ->
  to_ascii A cfg d deny hy DIgnore = Ok (b, a) -> Known_C10_long a = false ->
  to_ascii A cfg a deny hy DIgnore = Ok (true, a) /\
  ui_err (to_unicode A cfg a deny hy) = false /\ ui_err (to_unicode A cfg d deny hy) = false.
Print Assumptions C12_ascii_form.

Example C12_ascii_form_premises_hold :
  (AdapterOK lowsan /\ AdapterUSV lowsan /\ NvNoTrunc lowsan /\ NvIdem lowsan /\ AsciiNoMark lowsan /\ MapPrefix lowsan) /\
  to_ascii lowsan true W_idem3 DENY_URL HCheck DIgnore = Ok (false, W_idem3_A) /\ Known_C10_long W_idem3_A = false /\
  to_unicode lowsan true W_idem3_A DENY_URL HCheck = UI false [97; 46; 98; 252; 99; 104; 101; 114] false.
Proof. split; [exact lowsan_premises|exact c12_ascii_form_premises_hold]. Qed.

(* clause u_of_a IN FULL, every input (non-ASCII and xn-- labels included, INSIDE Known_C12 / Known_C11 too), every deny
   list the API can build, every hyphen mode, outside Known_C10_long (F-C10-1): ToUnicode of the ASCII form is ToUnicode of
   the name - same text, no error, no panic.  Premises: the sampled adapter facts of C10_idem3 *)
Theorem C12_u_of_a : forall A cfg, AdapterOK A -> AdapterUSV A -> NvNoTrunc A -> NvIdem A -> AsciiNoMark A -> MapPrefix A ->
  forall d deny hy b a, bytes d -> valid_deny deny ->
  to_ascii A cfg d deny hy DIgnore = Ok (b, a) -> Known_C10_long a = false ->
  ui_text (to_unicode A cfg a deny hy) = ui_text (to_unicode A cfg d deny hy) /\
  ui_err (to_unicode A cfg a deny hy) = false /\ ui_err (to_unicode A cfg d deny hy) = false /\
  ui_panics (to_unicode A cfg a deny hy) = false /\ ui_panics (to_unicode A cfg d deny hy) = false.
Proof. exact c12_u_of_a. Qed.
Check C12_u_of_a : forall A cfg, AdapterOK A -> AdapterUSV A -> NvNoTrunc A -> NvIdem A -> AsciiNoMark A -> MapPrefix A ->
  forall d deny hy b a, bytes d -> valid_deny deny ->
  to_ascii A cfg d deny hy DIgnore = Ok (b, a) -> Known_C10_long a = false ->
  ui_text (to_unicode A cfg a deny hy) = ui_text (to_unicode A cfg d deny hy) /\
  ui_err (to_unicode A cfg a deny hy) = false /\ ui_err (to_unicode A cfg d deny hy) = false /\
  ui_panics (to_unicode A cfg a deny hy) = false /\ ui_panics (to_unicode A cfg d deny hy) = false.
Print Assumptions C12_u_of_a.

Example C12_u_of_a_premises_hold :
  (AdapterOK lowsan /\ AdapterUSV lowsan /\ NvNoTrunc lowsan /\ NvIdem lowsan /\ AsciiNoMark lowsan /\ MapPrefix lowsan) /\
  to_ascii lowsan true W_idem3 DENY_URL HCheck DIgnore = Ok (false, W_idem3_A) /\ Known_C10_long W_idem3_A = false /\
  to_unicode lowsan true W_idem3 DENY_URL HCheck = UI false [97; 46; 98; 252; 99; 104; 101; 114] false /\
  to_unicode lowsan true W_idem3_A DENY_URL HCheck = UI false [97; 46; 98; 252; 99; 104; 101; 114] false.
Proof. split; [exact lowsan_premises|exact c12_u_of_a_example]. Qed.

(* ToASCII and ToUnicode of a name read off its virtual run (every label processed, none passed through): if the virtual
   run succeeds, its buffer has the bidi verdict bd and - when bd is set - the labels behind the first k (k at most the
   number of leading pass-through labels of the name) pass the bidi rule, then ToUnicode shows the Unicode texts of the
   virtual pairs, without error.  Premise: Redisc (a consequence of map_normalize [] = []) *)
Theorem C12_virtual_unicode : forall A cfg deny hy, DenyUpper deny -> LdhFree deny -> Redisc A cfg deny ->
  forall d Ys Fss k bd, bytes d -> proc_all A cfg deny hy (split_on DOT d) = SOk (Ys, Fss) -> VBk A cfg k bd Ys ->
  (k <= length (ptake (split_on DOT d)))%nat ->
  exists b ov, outs cfg uT (VL Ys) (concat Fss) = inl ov /\ to_unicode A cfg d deny hy = UI b (join_dots ov) false.
Proof. exact virtual_unicode. Qed.
Check C12_virtual_unicode : forall A cfg deny hy, DenyUpper deny -> LdhFree deny -> Redisc A cfg deny ->
  forall d Ys Fss k bd, bytes d -> proc_all A cfg deny hy (split_on DOT d) = SOk (Ys, Fss) -> VBk A cfg k bd Ys ->
  (k <= length (ptake (split_on DOT d)))%nat ->
  exists b ov, outs cfg uT (VL Ys) (concat Fss) = inl ov /\ to_unicode A cfg d deny hy = UI b (join_dots ov) false.
Print Assumptions C12_virtual_unicode.

(* C12_statement3 is false for an abstract adapter that satisfies its six adapter premises (mapad: map_normalize rewrites
   U+00E9 to U+00EA, normalize_validate accepts every scalar value): xn--9ca is accepted, ToUnicode shows U+00E9, ToASCII
   of that is xn--bda.  A refutation of the STATEMENT (the premise NvMapFix is missing), not of the crate *)
Theorem C12_statement3_refuted : exists A cfg,
  AdapterOK A /\ AdapterUSV A /\ NvNoTrunc A /\ NvIdem A /\ AsciiNoMark A /\ MapPrefix A /\ ~ C12_statement3 A cfg.
Proof. exact c12_statement3_refuted. Qed.
Check C12_statement3_refuted : exists A cfg,
  AdapterOK A /\ AdapterUSV A /\ NvNoTrunc A /\ NvIdem A /\ AsciiNoMark A /\ MapPrefix A /\ ~ C12_statement3 A cfg.
Print Assumptions C12_statement3_refuted.

Theorem C12_statement3_witness :
  to_ascii mapad false W_stmt3 DENY_EMPTY HAllow DIgnore = Ok (true, W_stmt3) /\
  Known_C12 mapad false W_stmt3 DENY_EMPTY HAllow = false /\ Known_C11 mapad false W_stmt3 DENY_EMPTY HAllow = false /\
  Known_C10_long W_stmt3 = false /\
  to_unicode mapad false W_stmt3 DENY_EMPTY HAllow = UI false [233] false /\
  to_ascii mapad false (utf8_encode [233]) DENY_EMPTY HAllow DIgnore = Ok (false, W_stmt3_2).
Proof. exact w_c12_stmt3. Qed.
Check C12_statement3_witness :
  to_ascii mapad false W_stmt3 DENY_EMPTY HAllow DIgnore = Ok (true, W_stmt3) /\
  Known_C12 mapad false W_stmt3 DENY_EMPTY HAllow = false /\ Known_C11 mapad false W_stmt3 DENY_EMPTY HAllow = false /\
  Known_C10_long W_stmt3 = false /\
  to_unicode mapad false W_stmt3 DENY_EMPTY HAllow = UI false [233] false /\
  to_ascii mapad false (utf8_encode [233]) DENY_EMPTY HAllow DIgnore = Ok (false, W_stmt3_2).
Print Assumptions C12_statement3_witness.

(* the premises of the corrected statement C12_statement4 (those of C12_statement3 and NvMapFix) are satisfiable, the
   adapter of the refutation violates NvMapFix, and a non-ASCII name goes through all four clauses *)
Example C12_statement4_premises_hold :
  (AdapterOK lowsan4 /\ AdapterUSV lowsan4 /\ NvNoTrunc lowsan4 /\ NvIdem lowsan4 /\ AsciiNoMark lowsan4 /\ MapPrefix lowsan4 /\ NvMapFix lowsan4) /\
  ~ NvMapFix mapad /\
  to_ascii lowsan4 true W_idem3 DENY_URL HCheck DIgnore = Ok (false, W_idem3_A) /\
  to_unicode lowsan4 true W_idem3 DENY_URL HCheck = UI false [97; 46; 98; 252; 99; 104; 101; 114] false /\
  to_ascii lowsan4 true (utf8_encode [97; 46; 98; 252; 99; 104; 101; 114]) DENY_URL HCheck DIgnore = Ok (false, W_idem3_A).
Proof.
  split; [exact lowsan4_premises|]. split; [exact mapad_not_mapfix|].
  destruct w_c12_stmt4 as (H1 & _ & _ & _ & H2 & _ & H3 & _). split; [exact H1|]. split; [exact H2|exact H3].
Qed.

(* C12_statement4, clauses u_of_a, a_of_u and u_idem, on the class PunyIn d = false (the accepted run recorded no xn--
   input label: no entry of already_punycode is MixedCasePunycode; non-ASCII labels, ideographic dots, mapped characters
   are all inside the class), outside Known_C12 and Known_C10_long - Known_C11 need not be excluded: ToUnicode of the
   ASCII form is ToUnicode of the name, ToASCII of the (UTF-8 form of the) Unicode form is the ASCII form, ToUnicode is
   idempotent.  Premises: the seven sampled adapter facts of C12_statement4.
   STILL MISSING from C12_statement4: clause ui (to_user_interface with an arbitrary display policy), and the clauses
   a_of_u / u_idem for names with an accepted xn-- input label, where the only missing fact is about Punycode:
   encode_internal (decode U8Internal p) = map to_lower p *)
Theorem C12_round_partial : forall A cfg,
  AdapterOK A -> AdapterUSV A -> NvNoTrunc A -> NvIdem A -> AsciiNoMark A -> MapPrefix A -> NvMapFix A ->
  forall d deny hy b a, bytes d -> valid_deny deny -> Known_C12 A cfg d deny hy = false -> PunyIn A cfg d deny hy = false ->
  to_ascii A cfg d deny hy DIgnore = Ok (b, a) -> Known_C10_long a = false ->
  let u := ui_text (to_unicode A cfg d deny hy) in
  (ui_text (to_unicode A cfg a deny hy) = u /\ ui_err (to_unicode A cfg a deny hy) = false) /\
  (exists b', to_ascii A cfg (utf8_encode u) deny hy DIgnore = Ok (b', a)) /\
  (ui_text (to_unicode A cfg (utf8_encode u) deny hy) = u /\ ui_err (to_unicode A cfg (utf8_encode u) deny hy) = false).
Proof. exact c12_round. Qed.
Check C12_round_partial : forall A cfg,
  AdapterOK A -> AdapterUSV A -> NvNoTrunc A -> NvIdem A -> AsciiNoMark A -> MapPrefix A -> NvMapFix A ->
  forall d deny hy b a, bytes d -> valid_deny deny -> Known_C12 A cfg d deny hy = false -> PunyIn A cfg d deny hy = false ->
  to_ascii A cfg d deny hy DIgnore = Ok (b, a) -> Known_C10_long a = false ->
  let u := ui_text (to_unicode A cfg d deny hy) in
  (ui_text (to_unicode A cfg a deny hy) = u /\ ui_err (to_unicode A cfg a deny hy) = false) /\
  (exists b', to_ascii A cfg (utf8_encode u) deny hy DIgnore = Ok (b', a)) /\
  (ui_text (to_unicode A cfg (utf8_encode u) deny hy) = u /\ ui_err (to_unicode A cfg (utf8_encode u) deny hy) = false).
Print Assumptions C12_round_partial.

Example C12_round_premises_hold :
  (AdapterOK lowsan4 /\ AdapterUSV lowsan4 /\ NvNoTrunc lowsan4 /\ NvIdem lowsan4 /\ AsciiNoMark lowsan4 /\ MapPrefix lowsan4 /\ NvMapFix lowsan4) /\
  Known_C12 lowsan4 true W_idem3 DENY_URL HCheck = false /\ PunyIn lowsan4 true W_idem3 DENY_URL HCheck = false /\
  to_ascii lowsan4 true W_idem3 DENY_URL HCheck DIgnore = Ok (false, W_idem3_A) /\ Known_C10_long W_idem3_A = false /\
  to_unicode lowsan4 true W_idem3 DENY_URL HCheck = UI false [97; 46; 98; 252; 99; 104; 101; 114] false.
Proof. split; [exact lowsan4_premises|exact c12_round_example]. Qed.

(* THE FULL STATEMENT (C12_statement5 = C12_statement4 and the sampled premise NvNoGrow): for every byte string that ToASCII
   accepts, outside Known_C12 (F-C12-1), Known_C11 and - on the ASCII form - Known_C10_long (F-C10-1), every deny list the
   API can build, every hyphen mode, debug assertions on or off: ToUnicode of the ASCII form is ToUnicode of the name;
   ToASCII of the Unicode form is the ASCII form; ToUnicode is idempotent; ToASCII of to_user_interface of the name under
   EVERY display policy is the ASCII form.  Names with xn-- input labels (any case), non-ASCII labels, mapped characters,
   ideographic dots, empty labels included *)
Theorem C12_5 : forall A cfg, C12_statement5 A cfg.
Proof. exact c12_5. Qed.
Check C12_5 : forall A cfg,
  AdapterOK A -> AdapterUSV A -> NvNoTrunc A -> NvIdem A -> AsciiNoMark A -> MapPrefix A -> NvMapFix A -> NvNoGrow A ->
  forall d deny hy b a,
  bytes d -> valid_deny deny -> Known_C12 A cfg d deny hy = false -> Known_C11 A cfg d deny hy = false ->
  to_ascii A cfg d deny hy DIgnore = Ok (b, a) -> Known_C10_long a = false ->
  let u := ui_text (to_unicode A cfg d deny hy) in
  (ui_text (to_unicode A cfg a deny hy) = u /\ ui_err (to_unicode A cfg a deny hy) = false) /\
  (exists b', to_ascii A cfg (utf8_encode u) deny hy DIgnore = Ok (b', a)) /\
  (ui_text (to_unicode A cfg (utf8_encode u) deny hy) = u /\ ui_err (to_unicode A cfg (utf8_encode u) deny hy) = false) /\
  (forall p, exists b', to_ascii A cfg (utf8_encode (ui_text (to_user_interface A cfg d deny hy p))) deny hy DIgnore = Ok (b', a)).
Print Assumptions C12_5.

(* the same WITHOUT the exclusion of Known_C11, and with: to_user_interface reports no error and does not panic *)
Theorem C12_all : forall A cfg,
  AdapterOK A -> AdapterUSV A -> NvNoTrunc A -> NvIdem A -> AsciiNoMark A -> MapPrefix A -> NvMapFix A -> NvNoGrow A ->
  forall d deny hy b a, bytes d -> valid_deny deny -> Known_C12 A cfg d deny hy = false ->
  to_ascii A cfg d deny hy DIgnore = Ok (b, a) -> Known_C10_long a = false ->
  let u := ui_text (to_unicode A cfg d deny hy) in
  (ui_text (to_unicode A cfg a deny hy) = u /\ ui_err (to_unicode A cfg a deny hy) = false) /\
  (exists b', to_ascii A cfg (utf8_encode u) deny hy DIgnore = Ok (b', a)) /\
  (ui_text (to_unicode A cfg (utf8_encode u) deny hy) = u /\ ui_err (to_unicode A cfg (utf8_encode u) deny hy) = false) /\
  (forall p, ui_err (to_user_interface A cfg d deny hy p) = false /\ ui_panics (to_user_interface A cfg d deny hy p) = false /\
     exists b', to_ascii A cfg (utf8_encode (ui_text (to_user_interface A cfg d deny hy p))) deny hy DIgnore = Ok (b', a)).
Proof. exact c12_all. Qed.
Check C12_all : forall A cfg,
  AdapterOK A -> AdapterUSV A -> NvNoTrunc A -> NvIdem A -> AsciiNoMark A -> MapPrefix A -> NvMapFix A -> NvNoGrow A ->
  forall d deny hy b a, bytes d -> valid_deny deny -> Known_C12 A cfg d deny hy = false ->
  to_ascii A cfg d deny hy DIgnore = Ok (b, a) -> Known_C10_long a = false ->
  let u := ui_text (to_unicode A cfg d deny hy) in
  (ui_text (to_unicode A cfg a deny hy) = u /\ ui_err (to_unicode A cfg a deny hy) = false) /\
  (exists b', to_ascii A cfg (utf8_encode u) deny hy DIgnore = Ok (b', a)) /\
  (ui_text (to_unicode A cfg (utf8_encode u) deny hy) = u /\ ui_err (to_unicode A cfg (utf8_encode u) deny hy) = false) /\
  (forall p, ui_err (to_user_interface A cfg d deny hy p) = false /\ ui_panics (to_user_interface A cfg d deny hy p) = false /\
     exists b', to_ascii A cfg (utf8_encode (ui_text (to_user_interface A cfg d deny hy p))) deny hy DIgnore = Ok (b', a)).
Print Assumptions C12_all.

(* the eight premises are satisfiable, and a name with an xn-- INPUT label (upper-case letters in the prefix, the basic
   code units and the digits: A.XN--Bcher-KVA) goes through the clauses; two display policies *)
Example C12_5_premises_hold :
  (AdapterOK lowsan4 /\ AdapterUSV lowsan4 /\ NvNoTrunc lowsan4 /\ NvIdem lowsan4 /\ AsciiNoMark lowsan4 /\ MapPrefix lowsan4 /\
   NvMapFix lowsan4 /\ NvNoGrow lowsan4) /\
  to_ascii lowsan4 true W_stmt5 DENY_URL HCheck DIgnore = Ok (false, W_stmt5_A) /\
  Known_C12 lowsan4 true W_stmt5 DENY_URL HCheck = false /\ Known_C11 lowsan4 true W_stmt5 DENY_URL HCheck = false /\
  PunyIn lowsan4 true W_stmt5 DENY_URL HCheck = true /\ Known_C10_long W_stmt5_A = false /\
  to_unicode lowsan4 true W_stmt5 DENY_URL HCheck = UI false W_stmt5_U false /\
  to_ascii lowsan4 true (utf8_encode W_stmt5_U) DENY_URL HCheck DIgnore = Ok (false, W_stmt5_A) /\
  to_user_interface lowsan4 true W_stmt5 DENY_URL HCheck never_unicode = UI false W_stmt5_A false /\
  to_user_interface lowsan4 true W_stmt5 DENY_URL HCheck even_len_policy = UI false W_stmt5_U false.
Proof. split; [exact lowsan4_premises5|exact w_c12_stmt5]. Qed.

(* the Punycode fact behind the xn-- input labels: C13_enc_dec transported to the Internal instantiations - what the u8
   internal decoder reads from an all-ASCII text p (at most 1000 scalar values) is re-encoded by the internal-caller
   encoder to p with its ASCII letters lower-cased (basic code units, delimiter and digits) *)
Theorem C12_enc_dec_internal : forall cfg p s, Forall (fun b => b < 128) p -> N.of_nat (length p) <= U32_MAX ->
  decode_with cfg U8Internal p = Ok s -> usv_list s -> (length s <= 1000)%nat ->
  encode_internal cfg s = Ok (map to_lower p).
Proof. exact enc_dec_internal. Qed.
Check C12_enc_dec_internal : forall cfg p s, Forall (fun b => b < 128) p -> N.of_nat (length p) <= U32_MAX ->
  decode_with cfg U8Internal p = Ok s -> usv_list s -> (length s <= 1000)%nat ->
  encode_internal cfg s = Ok (map to_lower p).
Print Assumptions C12_enc_dec_internal.

Example C12_enc_dec_internal_premises_hold :
  Forall (fun b => b < 128) [66; 99; 104; 101; 114; 45; 75; 86; 65] /\
  decode_with true U8Internal [66; 99; 104; 101; 114; 45; 75; 86; 65] = Ok [98; 252; 99; 104; 101; 114] /\
  usv_list [98; 252; 99; 104; 101; 114] /\
  encode_internal true [98; 252; 99; 104; 101; 114] = Ok [98; 99; 104; 101; 114; 45; 107; 118; 97].
Proof.
  split; [repeat constructor|]. split; [vm_compute; reflexivity|].
  split; [repeat constructor; unfold is_usv; lia|vm_compute; reflexivity].
Qed.

(* the per-label fact behind it: the fail-fast label step applied to the UTF-8 form of a non-ASCII text dbl that
   normalize_validate fixes, that passes the deny list and check_label and does not start with xn--, returns the buffer
   label dbl with the entry AalOther (uts46.rs copies the ASCII prefix but its last character and maps the rest) *)
Theorem C12_label_unicode : forall A cfg deny hy, DenyUpper deny -> MapPrefix A -> NvMapFix A ->
  forall dbl, normalize_validate A dbl = dbl -> Forall (gc (dd deny)) dbl -> chk A cfg hy dbl -> usv_list dbl ->
  is_ascii_l dbl = false -> starts_with dbl XN_PREFIX = false ->
  pres A cfg deny hy (utf8_encode dbl) = SOk (dbl, false, [AalOther]).
Proof. exact pres_unicode. Qed.
Check C12_label_unicode : forall A cfg deny hy, DenyUpper deny -> MapPrefix A -> NvMapFix A ->
  forall dbl, normalize_validate A dbl = dbl -> Forall (gc (dd deny)) dbl -> chk A cfg hy dbl -> usv_list dbl ->
  is_ascii_l dbl = false -> starts_with dbl XN_PREFIX = false ->
  pres A cfg deny hy (utf8_encode dbl) = SOk (dbl, false, [AalOther]).
Print Assumptions C12_label_unicode.

(* C12_statement2 is false for an abstract adapter that satisfies its four adapter premises (ctxad: U+00EA becomes U+00EB
   exactly after "ab"): outside Known_C12, Known_C11 and Known_C10_long, ToUnicode of the ASCII form xn--ab-fja of
   "ab" U+00EA reports an error.  A refutation of the STATEMENT (the premise MapPrefix is missing), not of the crate *)
Theorem C12_statement2_refuted : exists A cfg, AdapterOK A /\ NvNoTrunc A /\ NvIdem A /\ AsciiNoMark A /\ ~ C12_statement2 A cfg.
Proof. exact c12_statement2_refuted. Qed.
Check C12_statement2_refuted : exists A cfg, AdapterOK A /\ NvNoTrunc A /\ NvIdem A /\ AsciiNoMark A /\ ~ C12_statement2 A cfg.
Print Assumptions C12_statement2_refuted.

(* the Punycode round trip that uts46.rs relies on (PunyRT, Proofs/Idna_Hyp.v) is a theorem, derived from the C13
   development: for a label of at most 1000 scalar values the internal encoder's output is read back by the char
   decoder as the label and by the u8 decoder as the label with its ASCII letters lower-cased *)
Theorem C12_punyrt : forall cfg l p,
  len l <= PUNYCODE_ENCODE_MAX_INPUT_LENGTH -> usv_list l -> encode_internal cfg l = Ok p ->
  decode_with cfg CharInternal p = Ok l /\ decode_with cfg U8Internal p = Ok (map to_lower l).
Proof. exact punyrt_holds. Qed.
Check C12_punyrt : forall cfg l p,
  len l <= PUNYCODE_ENCODE_MAX_INPUT_LENGTH -> usv_list l -> encode_internal cfg l = Ok p ->
  decode_with cfg CharInternal p = Ok l /\ decode_with cfg U8Internal p = Ok (map to_lower l).
Print Assumptions C12_punyrt.

Theorem C12_punyrt_rel : forall cfg, PunyRT cfg.
Proof. exact punyrt_holds. Qed.
Check C12_punyrt_rel : forall cfg, PunyRT cfg.
Print Assumptions C12_punyrt_rel.

(* the first wording of that premise (both decoders return the label itself, upper-case letters included) was
   unsatisfiable: [65; 252] encodes to "A-eha", which the u8 decoder reads as [97; 252] *)
Theorem C12_punyrt_old_unsat : forall cfg, ~ PunyRT_old cfg.
Proof. exact PunyRT_old_unsat. Qed.
Check C12_punyrt_old_unsat : forall cfg, ~ PunyRT_old cfg.
Print Assumptions C12_punyrt_old_unsat.

(* F-C12-1: inside Known_C12 the round trip fails *)
Theorem C12_refuted : exists A d deny hy u,
  Known_C12 A false d deny hy = true /\
  to_ascii A false d deny hy DIgnore = Ok (true, d) /\
  to_unicode A false d deny hy = UI false u false /\
  to_ascii A false (utf8_encode u) deny hy DIgnore = Err /\
  ui_err (to_unicode A false (utf8_encode u) deny hy) = true.
Proof.
  exists toy, W_C12_1, DENY_EMPTY, HAllow, W_C12_1_U.
  destruct w_c12_1 as (H1 & H2 & H3 & H4 & H5). repeat split; assumption.
Qed.
Check C12_refuted : exists A d deny hy u,
  Known_C12 A false d deny hy = true /\
  to_ascii A false d deny hy DIgnore = Ok (true, d) /\
  to_unicode A false d deny hy = UI false u false /\
  to_ascii A false (utf8_encode u) deny hy DIgnore = Err /\
  ui_err (to_unicode A false (utf8_encode u) deny hy) = true.
Print Assumptions C12_refuted.

(* F-C10-1: outside Known_C12 and Known_C11 the round trip fails as well - C12_statement is false for an adapter that
   satisfies AdapterOK: ToASCII accepts a label of 1000 ideographs, ToUnicode of the original shows it without error,
   ToUnicode (and to_user_interface) of the ASCII form report an error (more than 2000 characters after xn--) *)
Theorem C12_statement_refuted : exists A cfg, AdapterOK A /\ ~ C12_statement A cfg.
Proof. exact c12_statement_refuted. Qed.
Check C12_statement_refuted : exists A cfg, AdapterOK A /\ ~ C12_statement A cfg.
Print Assumptions C12_statement_refuted.

Theorem C12_long_witness :
  to_ascii lowad false W_C10_long DENY_EMPTY HAllow DIgnore = Ok (false, W_C10_long_A) /\
  Known_C10_long W_C10_long_A = true /\
  to_unicode lowad false W_C10_long DENY_EMPTY HAllow = UI false W_C10_long_U false /\
  ui_err (to_unicode lowad false W_C10_long_A DENY_EMPTY HAllow) = true /\
  ui_err (to_user_interface lowad false W_C10_long_A DENY_EMPTY HAllow never_unicode) = true.
Proof.
  exact (conj (proj1 (proj2 (proj2 (proj2 w_c10_long)))) (conj (proj1 (proj2 (proj2 (proj2 (proj2 (proj2 w_c10_long))))))
          w_c10_long_unicode)).
Qed.
Check C12_long_witness :
  to_ascii lowad false W_C10_long DENY_EMPTY HAllow DIgnore = Ok (false, W_C10_long_A) /\
  Known_C10_long W_C10_long_A = true /\
  to_unicode lowad false W_C10_long DENY_EMPTY HAllow = UI false W_C10_long_U false /\
  ui_err (to_unicode lowad false W_C10_long_A DENY_EMPTY HAllow) = true /\
  ui_err (to_user_interface lowad false W_C10_long_A DENY_EMPTY HAllow never_unicode) = true.
Print Assumptions C12_long_witness.

(* regenerated Punycode prefix test (case-insensitive xn--) and length caps *)
Theorem C12_consts :
  T_IDNA_PREFIX = 45 * 16777216 + 45 * 65536 + 78 * 256 + 88 /\
  T_IDNA_PREFIX_MASK = 255 * 16777216 + 255 * 65536 + 223 * 256 + 223 /\
  forallb has_punycode_prefix [[120;110;45;45]; [88;110;45;45]; [120;78;45;45]; [88;78;45;45]; [120;110;45;45;97]] = true /\
  existsb has_punycode_prefix [[120;110;45]; [120;110;45;46]; [121;110;45;45]; [120;111;45;45]; [120;110;13;45]; [24;110;45;45]] = false /\
  T_IDNA_DNS_TOTAL = 253 /\ T_IDNA_DNS_LABEL = 63 /\ T_IDNA_DECODE_MAX = 2000 /\ T_IDNA_ENCODE_MAX = 1000.
Proof. exact (conj (proj1 idna_prefix) (conj (proj1 (proj2 idna_prefix)) (conj (proj1 (proj2 (proj2 idna_prefix))) (conj (proj2 (proj2 (proj2 idna_prefix))) idna_limits)))). Qed.
Check C12_consts :
  T_IDNA_PREFIX = 45 * 16777216 + 45 * 65536 + 78 * 256 + 88 /\
  T_IDNA_PREFIX_MASK = 255 * 16777216 + 255 * 65536 + 223 * 256 + 223 /\
  forallb has_punycode_prefix [[120;110;45;45]; [88;110;45;45]; [120;78;45;45]; [88;78;45;45]; [120;110;45;45;97]] = true /\
  existsb has_punycode_prefix [[120;110;45]; [120;110;45;46]; [121;110;45;45]; [120;111;45;45]; [120;110;13;45]; [24;110;45;45]] = false /\
  T_IDNA_DNS_TOTAL = 253 /\ T_IDNA_DNS_LABEL = 63 /\ T_IDNA_DECODE_MAX = 2000 /\ T_IDNA_ENCODE_MAX = 1000.
Print Assumptions C12_consts.

Example C12_premises_hold :
  to_ascii toy true [120; 110; 45; 45; 52; 100; 98] DENY_EMPTY HAllow DIgnore = Ok (true, [120; 110; 45; 45; 52; 100; 98]) /\
  to_unicode toy true [120; 110; 45; 45; 52; 100; 98] DENY_EMPTY HAllow = UI false [1488] false /\
  to_ascii toy true (utf8_encode [1488]) DENY_EMPTY HAllow DIgnore = Ok (false, [120; 110; 45; 45; 52; 100; 98]).
Proof. vm_compute. repeat split; reflexivity. Qed.
