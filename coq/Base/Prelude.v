(* Base/Prelude.v - shared imports, arithmetic hygiene, finite sweeps over N.
   Standard library only. *)
From Coq Require Export List NArith ZArith Bool Lia.
From Coq Require Export ZifyBool ZifyN ZifyNat.
Export ListNotations.
Open Scope N_scope.

Ltac Zify.zify_post_hook ::= Z.div_mod_to_equations.

Arguments N.add : simpl never.
Arguments N.sub : simpl never.
Arguments N.mul : simpl never.
Arguments N.div : simpl never.
Arguments N.modulo : simpl never.
Arguments N.eqb : simpl never.
Arguments N.ltb : simpl never.
Arguments N.leb : simpl never.
Arguments N.testbit : simpl never.
Arguments N.land : simpl never.
Arguments N.lor : simpl never.
Arguments N.lxor : simpl never.
Arguments N.ldiff : simpl never.
Arguments N.shiftl : simpl never.
Arguments N.shiftr : simpl never.
Arguments N.pow : simpl never.

(* ---------- finite sweeps: forall b < n, f b = true, decided by computation ---------- *)

Definition sweep_step (f : N -> bool) (st : N * bool) : N * bool :=
  (fst st + 1, snd st && f (fst st)).

Definition all_below (n : N) (f : N -> bool) : bool :=
  snd (N.iter n (sweep_step f) (0, true)).

Lemma sweep_iter_fst f n : fst (N.iter n (sweep_step f) (0, true)) = n.
Proof.
  induction n as [|n IH] using N.peano_ind.
  - reflexivity.
  - rewrite N.iter_succ. unfold sweep_step at 1. cbn [fst]. rewrite IH. lia.
Qed.

Lemma all_below_spec n f :
  all_below n f = true -> forall b, b < n -> f b = true.
Proof.
  unfold all_below.
  induction n as [|n IH] using N.peano_ind; intros H b Hb.
  - lia.
  - rewrite N.iter_succ in H. unfold sweep_step at 1 in H. cbn [snd] in H.
    rewrite sweep_iter_fst in H.
    apply andb_true_iff in H. destruct H as [H1 H2].
    destruct (N.eq_dec b n) as [->|Hne].
    + exact H2.
    + apply IH; [exact H1 | lia].
Qed.

(* two-dimensional sweep *)
Definition all_below2 (n m : N) (f : N -> N -> bool) : bool :=
  all_below n (fun a => all_below m (f a)).

Lemma all_below2_spec n m f :
  all_below2 n m f = true -> forall a b, a < n -> b < m -> f a b = true.
Proof.
  unfold all_below2. intros H a b Ha Hb.
  pose proof (all_below_spec n _ H a Ha) as H1. cbv beta in H1.
  exact (all_below_spec m _ H1 b Hb).
Qed.

(* ---------- byte / code point predicates ---------- *)

Definition is_byte (b : N) : Prop := b < 256.
Definition bytes (l : list N) : Prop := Forall is_byte l.
Definition is_ascii (b : N) : Prop := b < 128.
Definition ascii (l : list N) : Prop := Forall is_ascii l.
Definition is_usv (c : N) : Prop := c < 55296 \/ (57344 <= c /\ c < 1114112).
Definition usv_list (l : list N) : Prop := Forall is_usv l.

Definition is_byteb (b : N) : bool := b <? 256.
Definition is_usvb (c : N) : bool := (c <? 55296) || ((57344 <=? c) && (c <? 1114112)).

Lemma is_usvb_spec c : is_usvb c = true <-> is_usv c.
Proof. unfold is_usvb, is_usv. lia. Qed.

Lemma bytes_app a b : bytes (a ++ b) <-> bytes a /\ bytes b.
Proof. unfold bytes. apply Forall_app. Qed.

Lemma ascii_app a b : ascii (a ++ b) <-> ascii a /\ ascii b.
Proof. unfold ascii. apply Forall_app. Qed.

Lemma ascii_bytes l : ascii l -> bytes l.
Proof. unfold ascii, bytes, is_ascii, is_byte. intros H. eapply Forall_impl; [|exact H]. cbv beta. intros; lia. Qed.

(* list equality on N, boolean *)
Fixpoint list_eqb (a b : list N) : bool :=
  match a, b with
  | [], [] => true
  | x :: a', y :: b' => (x =? y) && list_eqb a' b'
  | _, _ => false
  end.

Lemma list_eqb_spec a b : list_eqb a b = true <-> a = b.
Proof.
  revert b. induction a as [|x a IH]; intros [|y b]; cbn [list_eqb]; split; intros H; try congruence; try reflexivity.
  - apply andb_true_iff in H. destruct H as [H1 H2]. apply N.eqb_eq in H1. apply IH in H2. congruence.
  - inversion H; subst. rewrite N.eqb_refl. cbn. apply IH. reflexivity.
Qed.

(* membership on N lists, boolean *)
Fixpoint memb (x : N) (l : list N) : bool :=
  match l with [] => false | y :: r => (x =? y) || memb x r end.

Lemma memb_spec x l : memb x l = true <-> In x l.
Proof.
  induction l as [|y r IH]; cbn [memb In].
  - split; [discriminate | tauto].
  - rewrite orb_true_iff, IH, N.eqb_eq. split; intros [H|H]; auto.
Qed.

(* ASCII case *)
Definition is_upper (c : N) : bool := (65 <=? c) && (c <=? 90).
Definition is_lower (c : N) : bool := (97 <=? c) && (c <=? 122).
Definition is_alpha (c : N) : bool := is_upper c || is_lower c.
Definition is_digit (c : N) : bool := (48 <=? c) && (c <=? 57).
Definition is_alnum (c : N) : bool := is_alpha c || is_digit c.
Definition to_lower (c : N) : N := if is_upper c then c + 32 else c.
Definition to_upper (c : N) : N := if is_lower c then c - 32 else c.

(* hex digits *)
Definition hex_upper (d : N) : N := if d <? 10 then 48 + d else 55 + d.   (* 0-9 A-F *)
Definition hex_lower (d : N) : N := if d <? 10 then 48 + d else 87 + d.   (* 0-9 a-f *)
Definition hex_val (c : N) : option N :=
  if is_digit c then Some (c - 48)
  else if (65 <=? c) && (c <=? 70) then Some (c - 55)
  else if (97 <=? c) && (c <=? 102) then Some (c - 87)
  else None.

Lemma hex_val_upper d : d < 16 -> hex_val (hex_upper d) = Some d.
Proof. unfold hex_val, hex_upper, is_digit. intros H.
  destruct (d <? 10) eqn:E.
  - replace ((48 <=? 48 + d) && (48 + d <=? 57)) with true by lia. f_equal. lia.
  - replace ((48 <=? 55 + d) && (55 + d <=? 57)) with false by lia.
    replace ((65 <=? 55 + d) && (55 + d <=? 70)) with true by lia. f_equal. lia.
Qed.

Lemma hex_val_lower d : d < 16 -> hex_val (hex_lower d) = Some d.
Proof. unfold hex_val, hex_lower, is_digit. intros H.
  destruct (d <? 10) eqn:E.
  - replace ((48 <=? 48 + d) && (48 + d <=? 57)) with true by lia. f_equal. lia.
  - replace ((48 <=? 87 + d) && (87 + d <=? 57)) with false by lia.
    replace ((65 <=? 87 + d) && (87 + d <=? 70)) with false by lia.
    replace ((97 <=? 87 + d) && (87 + d <=? 102)) with true by lia. f_equal. lia.
Qed.

Lemma hex_val_bound c v : hex_val c = Some v -> v < 16.
Proof. unfold hex_val, is_digit. intros H.
  destruct ((48 <=? c) && (c <=? 57)) eqn:E1; [inversion H; lia|].
  destruct ((65 <=? c) && (c <=? 70)) eqn:E2; [inversion H; lia|].
  destruct ((97 <=? c) && (c <=? 102)) eqn:E3; [inversion H; lia|discriminate].
Qed.
