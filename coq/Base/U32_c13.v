(* Base/U32_c13.v - u32 machine arithmetic and the three-valued result used by the Punycode model.
   Definitions only. *)
From RU Require Import Base.Prelude.

Definition U32_MAX : N := 4294967295.
Definition U32_MOD : N := 4294967296.
Definition u32_wrap (x : N) : N := x mod U32_MOD.

(* u32::checked_add / checked_mul *)
Definition checked_add (a b : N) : option N := if a + b <=? U32_MAX then Some (a + b) else None.
Definition checked_mul (a b : N) : option N := if a * b <=? U32_MAX then Some (a * b) else None.

(* Result of a modelled function: a value, the function's own error (Err(()) / Overflow / None),
   or a panic at a source line.  Site 0 is reserved for "fuel of the model exhausted". *)
Inductive res (A : Type) : Type :=
| Ok (a : A)
| Err
| Panic (site : N).
Arguments Ok {A} a.
Arguments Err {A}.
Arguments Panic {A} site.

Definition SITE_FUEL : N := 0.

Definition rbind {A B : Type} (r : res A) (f : A -> res B) : res B :=
  match r with Ok a => f a | Err => Err | Panic s => Panic s end.

Definition of_checked (o : option N) : res N := match o with Some v => Ok v | None => Err end.

(* plain `a + b` / `a * b` on u32: overflow panics when overflow checks are compiled in
   (cfg_debug = true), wraps otherwise *)
Definition unchecked_add (cfg_debug : bool) (site : N) (a b : N) : res N :=
  if a + b <=? U32_MAX then Ok (a + b) else if cfg_debug then Panic site else Ok (u32_wrap (a + b)).
Definition unchecked_mul (cfg_debug : bool) (site : N) (a b : N) : res N :=
  if a * b <=? U32_MAX then Ok (a * b) else if cfg_debug then Panic site else Ok (u32_wrap (a * b)).

Definition is_ok {A : Type} (r : res A) : bool := match r with Ok _ => true | _ => false end.
Definition is_panic {A : Type} (r : res A) : bool := match r with Panic _ => true | _ => false end.
