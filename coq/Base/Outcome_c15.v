(* Base/Outcome_c15.v - result of a modelled call that may panic or (for fuelled loops) run out of fuel.
   Definitions only.  [Panic site]: site = source line of the panicking expression (from the translator).
   [OutOfFuel] is the distinguished value of a fuelled loop; theorems prove it is never returned. *)
From RU Require Import Base.Prelude.

Inductive outcome (A : Type) : Type :=
| Ok (a : A)
| Panic (site : N)
| OutOfFuel.
Arguments Ok {A} a.
Arguments Panic {A} site.
Arguments OutOfFuel {A}.

Definition obind {A B : Type} (x : outcome A) (f : A -> outcome B) : outcome B :=
  match x with
  | Ok a => f a
  | Panic s => Panic s
  | OutOfFuel => OutOfFuel
  end.

Definition omap {A B : Type} (f : A -> B) (x : outcome A) : outcome B :=
  match x with
  | Ok a => Ok (f a)
  | Panic s => Panic s
  | OutOfFuel => OutOfFuel
  end.
