(* Base/Utf8.v - UTF-8 as Rust's core::str sees it.
   utf8_scan mirrors run_utf8_validation / Utf8Chunks: the input is cut into scalar values and
   maximal invalid subparts.  Definitions only. *)
From RU Require Import Base.Prelude.

Definition REPLACEMENT : N := 65533.

Definition utf8_encode1 (c : N) : list N :=
  if c <? 128 then [c]
  else if c <? 2048 then [192 + c / 64; 128 + c mod 64]
  else if c <? 65536 then [224 + c / 4096; 128 + (c / 64) mod 64; 128 + c mod 64]
  else [240 + c / 262144; 128 + (c / 4096) mod 64; 128 + (c / 64) mod 64; 128 + c mod 64].

Definition utf8_encode (s : list N) : list N := flat_map utf8_encode1 s.

Definition is_cont (b : N) : bool := (128 <=? b) && (b <=? 191).

(* second-byte constraints of 3- and 4-byte sequences *)
Definition ok3 (b c1 : N) : bool :=
  ((b =? 224) && (160 <=? c1) && (c1 <=? 191))
  || ((225 <=? b) && (b <=? 236) && is_cont c1)
  || ((b =? 237) && (128 <=? c1) && (c1 <=? 159))
  || ((238 <=? b) && (b <=? 239) && is_cont c1).
Definition ok4 (b c1 : N) : bool :=
  ((b =? 240) && (144 <=? c1) && (c1 <=? 191))
  || ((241 <=? b) && (b <=? 243) && is_cont c1)
  || ((b =? 244) && (128 <=? c1) && (c1 <=? 143)).

Inductive uitem :=
| UCp (cp : N) (len : N)                 (* a scalar value and the number of bytes it took *)
| UBad (len : N) (truncated : bool).     (* a maximal invalid subpart; truncated = input ended inside it *)

Fixpoint utf8_scan (bs : list N) : list uitem :=
  match bs with
  | [] => []
  | b :: r =>
    if b <? 128 then UCp b 1 :: utf8_scan r
    else if (194 <=? b) && (b <=? 223) then
      match r with
      | [] => [UBad 1 true]
      | c1 :: r1 => if is_cont c1 then UCp ((b - 192) * 64 + (c1 - 128)) 2 :: utf8_scan r1
                    else UBad 1 false :: utf8_scan r
      end
    else if (224 <=? b) && (b <=? 239) then
      match r with
      | [] => [UBad 1 true]
      | c1 :: r1 =>
        if ok3 b c1 then
          match r1 with
          | [] => [UBad 2 true]
          | c2 :: r2 => if is_cont c2
                        then UCp ((b - 224) * 4096 + (c1 - 128) * 64 + (c2 - 128)) 3 :: utf8_scan r2
                        else UBad 2 false :: utf8_scan r1
          end
        else UBad 1 false :: utf8_scan r
      end
    else if (240 <=? b) && (b <=? 244) then
      match r with
      | [] => [UBad 1 true]
      | c1 :: r1 =>
        if ok4 b c1 then
          match r1 with
          | [] => [UBad 2 true]
          | c2 :: r2 =>
            if is_cont c2 then
              match r2 with
              | [] => [UBad 3 true]
              | c3 :: r3 => if is_cont c3
                  then UCp ((b - 240) * 262144 + (c1 - 128) * 4096 + (c2 - 128) * 64 + (c3 - 128)) 4
                       :: utf8_scan r3
                  else UBad 3 false :: utf8_scan r2
              end
            else UBad 2 false :: utf8_scan r1
          end
        else UBad 1 false :: utf8_scan r
      end
    else UBad 1 false :: utf8_scan r
  end.

(* String::from_utf8_lossy / utf8_iter: every invalid subpart becomes U+FFFD *)
Definition utf8_lossy (bs : list N) : list N :=
  map (fun it => match it with UCp c _ => c | UBad _ _ => REPLACEMENT end) (utf8_scan bs).

(* str::from_utf8: Ok(code points) or Err(valid_up_to, error_len) *)
Fixpoint strict_of_items (acc_rev : list N) (upto : N) (its : list uitem) : (list N) + (N * option N) :=
  match its with
  | [] => inl (rev acc_rev)
  | UCp c n :: r => strict_of_items (c :: acc_rev) (upto + n) r
  | UBad n tr :: _ => inr (upto, if tr then None else Some n)
  end.
Definition utf8_strict (bs : list N) : (list N) + (N * option N) := strict_of_items [] 0 (utf8_scan bs).

Definition utf8_valid (bs : list N) : bool :=
  match utf8_strict bs with inl _ => true | inr _ => false end.
