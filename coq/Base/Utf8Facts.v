From RU Require Import Base.Prelude Base.Utf8.

Definition usv_width (c : N) : N :=
  if c <? 128 then 1 else if c <? 2048 then 2 else if c <? 65536 then 3 else 4.

Lemma utf8_scan_encode1 c rest :
  is_usv c -> utf8_scan (utf8_encode1 c ++ rest) = UCp c (usv_width c) :: utf8_scan rest.
Proof.
  intros Hc. unfold utf8_encode1, usv_width, is_usv in *.
  destruct (c <? 128) eqn:E1.
  { cbn [app utf8_scan]. rewrite E1. reflexivity. }
  destruct (c <? 2048) eqn:E2.
  { cbn [app utf8_scan].
    replace (192 + c / 64 <? 128) with false by lia.
    replace ((194 <=? 192 + c / 64) && (192 + c / 64 <=? 223)) with true by lia.
    unfold is_cont.
    replace ((128 <=? 128 + c mod 64) && (128 + c mod 64 <=? 191)) with true by lia.
    f_equal. f_equal. lia. }
  destruct (c <? 65536) eqn:E3.
  { cbn [app utf8_scan].
    replace (224 + c / 4096 <? 128) with false by lia.
    replace ((194 <=? 224 + c / 4096) && (224 + c / 4096 <=? 223)) with false by lia.
    replace ((224 <=? 224 + c / 4096) && (224 + c / 4096 <=? 239)) with true by lia.
    replace (ok3 (224 + c / 4096) (128 + (c / 64) mod 64)) with true
      by (unfold ok3, is_cont; lia).
    unfold is_cont.
    replace ((128 <=? 128 + c mod 64) && (128 + c mod 64 <=? 191)) with true by lia.
    f_equal. f_equal. lia. }
  { cbn [app utf8_scan].
    replace (240 + c / 262144 <? 128) with false by lia.
    replace ((194 <=? 240 + c / 262144) && (240 + c / 262144 <=? 223)) with false by lia.
    replace ((224 <=? 240 + c / 262144) && (240 + c / 262144 <=? 239)) with false by lia.
    replace ((240 <=? 240 + c / 262144) && (240 + c / 262144 <=? 244)) with true by lia.
    replace (ok4 (240 + c / 262144) (128 + (c / 4096) mod 64)) with true
      by (unfold ok4, is_cont; lia).
    unfold is_cont.
    replace ((128 <=? 128 + (c / 64) mod 64) && (128 + (c / 64) mod 64 <=? 191)) with true by lia.
    replace ((128 <=? 128 + c mod 64) && (128 + c mod 64 <=? 191)) with true by lia.
    f_equal. f_equal. lia. }
Qed.

Lemma utf8_scan_encode s :
  usv_list s -> utf8_scan (utf8_encode s) = map (fun c => UCp c (usv_width c)) s.
Proof.
  induction s as [|c s IH]; intros H.
  - reflexivity.
  - inversion H as [|? ? Hc Hs]; subst. unfold utf8_encode. cbn [flat_map map].
    rewrite utf8_scan_encode1 by exact Hc. f_equal. apply IH. exact Hs.
Qed.

Theorem utf8_lossy_encode s : usv_list s -> utf8_lossy (utf8_encode s) = s.
Proof.
  intros H. unfold utf8_lossy. rewrite utf8_scan_encode by exact H.
  rewrite map_map. cbn. apply map_id.
Qed.

Lemma strict_of_items_cps acc upto s :
  strict_of_items acc upto (map (fun c => UCp c (usv_width c)) s) = inl (rev acc ++ s).
Proof.
  revert acc upto. induction s as [|c s IH]; intros acc upto; cbn [map strict_of_items].
  - rewrite app_nil_r. reflexivity.
  - rewrite IH. cbn [rev]. rewrite <- app_assoc. reflexivity.
Qed.

Theorem utf8_strict_encode s : usv_list s -> utf8_strict (utf8_encode s) = inl s.
Proof.
  intros H. unfold utf8_strict. rewrite utf8_scan_encode by exact H.
  rewrite strict_of_items_cps. reflexivity.
Qed.

Lemma utf8_encode1_bytes c : is_usv c -> bytes (utf8_encode1 c).
Proof.
  intros Hc. unfold utf8_encode1, is_usv, bytes, is_byte in *.
  destruct (c <? 128) eqn:E1; [repeat constructor; lia|].
  destruct (c <? 2048) eqn:E2; [repeat constructor; lia|].
  destruct (c <? 65536) eqn:E3; repeat constructor; lia.
Qed.

Lemma utf8_encode_bytes s : usv_list s -> bytes (utf8_encode s).
Proof.
  induction s as [|c s IH]; intros H.
  - constructor.
  - inversion H; subst. unfold utf8_encode. cbn [flat_map]. apply bytes_app. split.
    + apply utf8_encode1_bytes. assumption.
    + apply IH. assumption.
Qed.

Lemma utf8_encode_app a b : utf8_encode (a ++ b) = utf8_encode a ++ utf8_encode b.
Proof. unfold utf8_encode. apply flat_map_app. Qed.
